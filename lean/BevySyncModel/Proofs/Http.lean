import BevySyncModel.Http
/-! Helper lemmas for the HTTP endpoint model. -/
namespace BevySync
namespace Http

theorem unhexDigit_hexDigit : ∀ n, n < 16 → unhexDigit (hexDigit n) = some n := by decide

theorem hexDigit_ne_slash : ∀ n, n < 16 → (hexDigit n != 47) = true := by decide

theorem hi_lt (b : UInt8) : b.toNat / 16 < 16 := by have := UInt8.toNat_lt b; omega
theorem lo_lt (b : UInt8) : b.toNat % 16 < 16 := by omega

@[simp] theorem hi_ne_slash (b : UInt8) : (hi b != 47) = true := hexDigit_ne_slash _ (hi_lt b)
@[simp] theorem lo_ne_slash (b : UInt8) : (lo b != 47) = true := hexDigit_ne_slash _ (lo_lt b)

theorem byte_split (b : UInt8) : UInt8.ofNat (b.toNat / 16 * 16 + b.toNat % 16) = b := by
  have : b.toNat / 16 * 16 + b.toNat % 16 = b.toNat := by omega
  rw [this]; exact UInt8.ofNat_toNat

theorem unhexPairs_hilo (b : UInt8) (r : Str) (rest : List UInt8) (h : unhexPairs r = some rest) :
    unhexPairs (hi b :: lo b :: r) = some (b :: rest) := by
  simp only [hi, lo, unhexPairs, unhexDigit_hexDigit _ (hi_lt b), unhexDigit_hexDigit _ (lo_lt b), h, byte_split]

/-- an id of 16 bytes -/
theorem id16 (id : List UInt8) (h : id.length = 16) :
    ∃ b0 b1 b2 b3 b4 b5 b6 b7 b8 b9 b10 b11 b12 b13 b14 b15,
      id = [b0, b1, b2, b3, b4, b5, b6, b7, b8, b9, b10, b11, b12, b13, b14, b15] := by
  match id, h with
  | [b0, b1, b2, b3, b4, b5, b6, b7, b8, b9, b10, b11, b12, b13, b14, b15], _ =>
    exact ⟨b0, b1, b2, b3, b4, b5, b6, b7, b8, b9, b10, b11, b12, b13, b14, b15, rfl⟩

theorem hyphenated_length (id : List UInt8) (h : id.length = 16) : (hyphenated id).length = 36 := by
  obtain ⟨b0, b1, b2, b3, b4, b5, b6, b7, b8, b9, b10, b11, b12, b13, b14, b15, rfl⟩ := id16 id h
  simp only [hyphenated, List.length_cons, List.length_nil]

theorem hyphenated_noSlash (id : List UInt8) (h : id.length = 16) : ∀ c ∈ hyphenated id, c ≠ 47 := by
  obtain ⟨b0, b1, b2, b3, b4, b5, b6, b7, b8, b9, b10, b11, b12, b13, b14, b15, rfl⟩ := id16 id h
  have hd : (dash != 47) = true := by decide
  have hall : (hyphenated [b0, b1, b2, b3, b4, b5, b6, b7, b8, b9, b10, b11, b12, b13, b14, b15]).all (· != 47) = true := by
    simp only [hyphenated, List.all_cons, List.all_nil, hi_ne_slash, lo_ne_slash, hd, Bool.and_self]
  intro c hc
  have := List.all_eq_true.mp hall c hc
  simpa using this

theorem parseHyphenated_hyphenated (id : List UInt8) (h : id.length = 16) :
    parseHyphenated (hyphenated id) = some id := by
  obtain ⟨b0, b1, b2, b3, b4, b5, b6, b7, b8, b9, b10, b11, b12, b13, b14, b15, rfl⟩ := id16 id h
  have e0 : unhexPairs [] = some [] := rfl
  simp only [hyphenated, parseHyphenated, beq_self_eq_true, Bool.and_self, if_true]
  repeat (first | exact e0 | apply unhexPairs_hilo)

theorem parseUuid_hyphenated (id : List UInt8) (h : id.length = 16) :
    parseUuid (hyphenated id) = some id := by
  unfold parseUuid
  rw [hyphenated_length id h]
  simp only [show ((36 : Nat) == 32) = false from rfl, show ((36 : Nat) == 36) = true from rfl]
  simp only [Bool.false_eq_true, if_false, if_true]
  exact parseHyphenated_hyphenated id h

/-! ### `contains` / `strip_prefix` on the advertised paths -/
theorem isPrefix_slash_noSlash (p t : Str) (ht : ∀ c ∈ t, c ≠ 47) (hp : (47 : UInt8) ∈ p) :
    isPrefix p t = false := by
  induction p generalizing t with
  | nil => simp at hp
  | cons a p ih =>
    cases t with
    | nil => rfl
    | cons b t =>
      simp only [isPrefix]
      by_cases hab : a = b
      · subst hab
        have ha : a ≠ 47 := ht a (by simp)
        have hp' : (47 : UInt8) ∈ p := by
          simp only [List.mem_cons] at hp
          rcases hp with hp | hp
          · exact absurd hp.symm ha
          · exact hp
        simp [ih t (fun c hc => ht c (by simp [hc])) hp']
      · simp [hab]

theorem containsSub_noSlash (p t : Str) (ht : ∀ c ∈ t, c ≠ 47) (hp : (47 : UInt8) ∈ p) :
    containsSub p t = false := by
  induction t with
  | nil =>
    cases p with
    | nil => simp at hp
    | cons a p => rfl
  | cons b t ih =>
    simp only [containsSub, Bool.or_eq_false_iff]
    exact ⟨isPrefix_slash_noSlash p (b :: t) ht hp, ih (fun c hc => ht c (by simp [hc]))⟩

theorem stripPrefix_append (p t : Str) : stripPrefix p (p ++ t) = some t := by
  induction p with
  | nil => rfl
  | cons a p ih => simp [stripPrefix, ih]

theorem isPrefix_append (p t : Str) : isPrefix p (p ++ t) = true := by
  induction p with
  | nil => rfl
  | cons a p ih => simp [isPrefix, ih]

theorem containsSub_prefix (a : UInt8) (p t : Str) : containsSub (a :: p) ((a :: p) ++ t) = true := by
  have := isPrefix_append (a :: p) t
  simp only [List.cons_append] at this ⊢
  simp only [containsSub, this, Bool.true_or]

theorem classify_served (cl : Class) (t : Str) (ht : ∀ c ∈ t, c ≠ 47) :
    classify (cl.prefix ++ t) = some (cl, t) := by
  have t1 : ∀ p : Str, (47 : UInt8) ∈ p → containsSub p t = false := fun p hp => containsSub_noSlash p t ht hp
  have t2 : ∀ p : Str, (47 : UInt8) ∈ p → isPrefix p t = false := fun p hp => isPrefix_slash_noSlash p t ht hp
  have i1 := t1 sImage (by decide)
  have i2 := t2 [105, 109, 97, 103, 101, 47] (by decide)
  have m1 := t1 sMesh (by decide)
  have m2 := t2 [109, 101, 115, 104, 47] (by decide)
  cases cl with
  | image =>
    unfold classify
    rw [show Class.image.prefix = sImage from rfl, show sImage = 47 :: [105, 109, 97, 103, 101, 47] from rfl,
      containsSub_prefix, if_pos rfl, stripPrefix_append]; rfl
  | mesh =>
    have h1 : containsSub sImage (sMesh ++ t) = false := by
      simp only [sImage] at i1
      simp [sMesh, sImage, containsSub, isPrefix, i1, i2]
    unfold classify
    rw [show Class.mesh.prefix = sMesh from rfl, h1, show sMesh = 47 :: [109, 101, 115, 104, 47] from rfl,
      containsSub_prefix, stripPrefix_append]; rfl
  | audio =>
    have h1 : containsSub sImage (sAudio ++ t) = false := by
      simp only [sImage] at i1
      simp [sAudio, sImage, containsSub, isPrefix, i1, i2]
    have h2 : containsSub sMesh (sAudio ++ t) = false := by
      simp only [sMesh] at m1
      simp [sAudio, sMesh, containsSub, isPrefix, m1, m2]
    unfold classify
    rw [show Class.audio.prefix = sAudio from rfl, h1, h2, show sAudio = 47 :: [97, 117, 100, 105, 111, 47] from rfl,
      containsSub_prefix, stripPrefix_append]; rfl

end Http
end BevySync

namespace BevySync
namespace Http

/-! ### caches -/
theorem lookup_insertKV_same (k v : List UInt8) (l : List (List UInt8 × List UInt8)) :
    lookup k (insertKV k v l) = some v := by
  induction l with
  | nil => simp [insertKV, lookup]
  | cons kv l ih =>
    obtain ⟨k', v'⟩ := kv
    by_cases h : (k' == k) = true
    · simp [insertKV, lookup, h]
    · simp [insertKV, lookup, h, ih]

theorem lookup_insertKV_other (k k' v : List UInt8) (l : List (List UInt8 × List UInt8)) (hk : k' ≠ k) :
    lookup k' (insertKV k v l) = lookup k' l := by
  induction l with
  | nil =>
    have : (k == k') = false := by simpa using fun h => hk h.symm
    simp [insertKV, lookup, this]
  | cons kv l ih =>
    obtain ⟨k2, v2⟩ := kv
    by_cases h : (k2 == k) = true
    · have e : k2 = k := by simpa using h
      subst e
      have : (k2 == k') = false := by simpa using fun h => hk h.symm
      simp [insertKV, lookup, this]
    · by_cases h2 : (k2 == k') = true
      · simp [insertKV, lookup, h, h2]
      · simp [insertKV, lookup, h, h2, ih]

theorem get_set_same (c : Caches) (cl : Class) (l) : (c.set cl l).get cl = l := by
  cases cl <;> rfl

theorem get_set_other (c : Caches) (cl cl' : Class) (l) (h : cl' ≠ cl) : (c.set cl l).get cl' = c.get cl' := by
  cases cl <;> cases cl' <;> first | rfl | exact absurd rfl h

/-- what a lookup sees after one publication -/
theorem lookup_publish (ow : Bool) (c : Caches) (cl cl' : Class) (id id' bin : List UInt8) :
    lookup id' ((publish ow c cl id bin).get cl') =
      if cl' = cl ∧ id' = id then
        (match lookup id (c.get cl) with
         | some old => if ow then some bin else some old
         | none => some bin)
      else lookup id' (c.get cl') := by
  unfold publish
  by_cases hc : cl' = cl
  · subst hc
    by_cases hi : id' = id
    · subst hi
      cases hl : lookup id' (c.get cl') with
      | none => simp [get_set_same, lookup_insertKV_same]
      | some old =>
        cases ow
        · simp [hl]
        · simp [get_set_same, lookup_insertKV_same]
    · cases hl : lookup id (c.get cl') with
      | none => simp [hi, get_set_same, lookup_insertKV_other _ _ _ _ hi]
      | some old =>
        cases ow
        · simp [hi]
        · simp [hi, get_set_same, lookup_insertKV_other _ _ _ _ hi]
  · cases hl : lookup id (c.get cl) with
    | none => simp [hc, get_set_other _ _ _ _ hc]
    | some old =>
      cases ow
      · simp [hc]
      · simp [hc, get_set_other _ _ _ _ hc]

abbrev PubOp := Class × List UInt8 × List UInt8

def publishAll (ow : Bool) (c : Caches) (ops : List PubOp) : Caches :=
  ops.foldl (fun c o => publish ow c o.1 o.2.1 o.2.2) c

/-- first publication of (cl, id) in a history -/
def firstPub (cl : Class) (id : List UInt8) : List PubOp → Option (List UInt8)
  | [] => none
  | o :: ops => if o.1 = cl ∧ o.2.1 = id then some o.2.2 else firstPub cl id ops

/-- last publication of (cl, id) in a history -/
def lastPub (cl : Class) (id : List UInt8) : List PubOp → Option (List UInt8)
  | [] => none
  | o :: ops =>
    match lastPub cl id ops with
    | some b => some b
    | none => if o.1 = cl ∧ o.2.1 = id then some o.2.2 else none

theorem lookup_publishAll_keep (c : Caches) (ops : List PubOp) (cl : Class) (id : List UInt8) :
    lookup id ((publishAll false c ops).get cl) =
      match lookup id (c.get cl) with
      | some v => some v
      | none => firstPub cl id ops := by
  induction ops generalizing c with
  | nil => cases h : lookup id (c.get cl) <;> simp [publishAll, firstPub, h]
  | cons o ops ih =>
    obtain ⟨ocl, oid, obin⟩ := o
    have := ih (publish false c ocl oid obin)
    simp only [publishAll, List.foldl_cons] at this ⊢
    rw [this, lookup_publish]
    by_cases h : cl = ocl ∧ id = oid
    · obtain ⟨rfl, rfl⟩ := h
      cases hl : lookup id (c.get cl) <;> simp [firstPub, hl]
    · have h' : ¬ (ocl = cl ∧ oid = id) := fun ⟨a, b⟩ => h ⟨a.symm, b.symm⟩
      cases hl : lookup id (c.get cl) <;> simp [firstPub, h, h', hl]

theorem lookup_publishAll_overwrite (c : Caches) (ops : List PubOp) (cl : Class) (id : List UInt8) :
    lookup id ((publishAll true c ops).get cl) =
      match lastPub cl id ops with
      | some v => some v
      | none => lookup id (c.get cl) := by
  induction ops generalizing c with
  | nil => simp [publishAll, lastPub]
  | cons o ops ih =>
    obtain ⟨ocl, oid, obin⟩ := o
    have := ih (publish true c ocl oid obin)
    simp only [publishAll, List.foldl_cons] at this ⊢
    rw [this, lookup_publish]
    cases hlast : lastPub cl id ops with
    | some b => simp [lastPub, hlast]
    | none =>
      by_cases h : cl = ocl ∧ id = oid
      · obtain ⟨rfl, rfl⟩ := h
        cases hl : lookup id (c.get cl) <;> simp [lastPub, hlast, hl]
      · have h' : ¬ (ocl = cl ∧ oid = id) := fun ⟨a, b⟩ => h ⟨a.symm, b.symm⟩
        simp [lastPub, hlast, h, h']

theorem firstPub_none (cl : Class) (id : List UInt8) (ops : List PubOp)
    (h : ∀ o ∈ ops, ¬ (o.1 = cl ∧ o.2.1 = id)) : firstPub cl id ops = none := by
  induction ops with
  | nil => rfl
  | cons o ops ih =>
    simp only [firstPub, h o (by simp), if_false]
    exact ih (fun o' ho' => h o' (by simp [ho']))

theorem lastPub_none (cl : Class) (id : List UInt8) (ops : List PubOp)
    (h : ∀ o ∈ ops, ¬ (o.1 = cl ∧ o.2.1 = id)) : lastPub cl id ops = none := by
  induction ops with
  | nil => rfl
  | cons o ops ih =>
    simp only [lastPub, ih (fun o' ho' => h o' (by simp [ho'])), h o (by simp), if_false]

/-! ### base url -/
theorem takeWhile_ne_append (t r : Str) (x : UInt8) (ht : ∀ c ∈ t, c ≠ x) :
    (t ++ x :: r).takeWhile (· != x) = t ∧ (t ++ x :: r).dropWhile (· != x) = x :: r := by
  induction t with
  | nil => simp
  | cons a t ih =>
    have ha : (a != x) = true := by simpa using ht a (by simp)
    have := ih (fun c hc => ht c (by simp [hc]))
    simp [List.takeWhile, List.dropWhile, ha, this]

end Http
end BevySync
