import BevySyncModel.Proofs.EntBound
import BevySyncModel.Proofs.CompLive
/-! Bounded time to quiescence in the entity slice: from **any** state, two fair rounds without application operations
(no `SyncMark` insertion, no despawn, nobody leaving) end in a quiescent state.  A fair round: the host runs
`entity_removed_from_server`, `entity_created_on_server` and polls every client's channel; then every client runs
`entity_removed_from_client`, `entity_created_on_client` and polls its channel (poll and the end-of-frame flush are one
action in this slice). -/
namespace BevySync
namespace Ent
open Comp (foldl_inv foldl_max_ge)

instance decQuiescent (s : State) : Decidable (Quiescent s) := by
  unfold Quiescent; infer_instance

def maxUp (s : State) : Nat := (s.clients.map (·.up.length)).foldl max 0
def maxDown (s : State) : Nat := (s.clients.map (·.down.length)).foldl max 0

theorem le_maxUp (s : State) (c : Client) (h : c ∈ s.clients) : c.up.length ≤ maxUp s :=
  (foldl_max_ge _ 0).2 _ (List.mem_map.mpr ⟨c, h, rfl⟩)
theorem le_maxDown (s : State) (c : Client) (h : c ∈ s.clients) : c.down.length ≤ maxDown s :=
  (foldl_max_ge _ 0).2 _ (List.mem_map.mpr ⟨c, h, rfl⟩)

theorem onClient_onClient (i : Nat) (f g : Client → Client) (cs : List Client) (hg : ∀ c, (g c).id = c.id) :
    onClient i f (onClient i g cs) = onClient i (fun c => f (g c)) cs := by
  unfold onClient
  rw [List.map_map]
  apply List.map_congr_left
  intro c _
  simp only [Function.comp]
  by_cases h : c.id = i
  · simp [h, hg c]
  · simp [h]

theorem onClient_congr (i : Nat) (f g : Client → Client) (cs : List Client)
    (h : ∀ c ∈ cs, c.id = i → f c = g c) : onClient i f cs = onClient i g cs := by
  unfold onClient
  apply List.map_congr_left
  intro c hc
  by_cases hi : c.id = i
  · simp [hi, h c hc hi]
  · simp [hi]

/-! ## receiving never leaves a peer with something to announce -/

theorem noticed_clientRecv (p : Peer) (m : M) (h : noticed p = false) : noticed (clientRecv p m) = false ∧
    (clientRecv p m).marked = p.marked := by
  rcases p with ⟨mk, k, t, w⟩
  cases m <;> cases t <;> rcases k with _ | k <;> simp_all [noticed, clientRecv]

theorem noticed_clientFold (l : List M) (p : Peer) (h : noticed p = false) :
    noticed (l.foldl clientRecv p) = false ∧ (l.foldl clientRecv p).marked = p.marked := by
  induction l generalizing p with
  | nil => exact ⟨h, rfl⟩
  | cons m l ih =>
    obtain ⟨a, b⟩ := noticed_clientRecv p m h
    obtain ⟨c, d⟩ := ih _ a
    exact ⟨c, d.trans b⟩

theorem noticed_hostRecv (p : Peer) (m : M) (h : noticed p = false) : noticed (hostRecv p m).1 = false ∧
    (hostRecv p m).1.marked = p.marked := by
  rcases p with ⟨mk, k, t, w⟩
  cases m <;> cases t <;> rcases k with _ | k <;> simp_all [noticed, hostRecv]

/-! ## one client's part of a round -/

def cRemoved' (c : Client) : Client := cRemoved c
def cRound (c : Client) : Client := cPollC (cCreated (cRemoved c)).down.length (cCreated (cRemoved c))

theorem cRound_id (c : Client) : (cRound c).id = c.id := by
  unfold cRound cPollC cCreated cRemoved
  split <;> split <;> split <;> rfl

def clientPhase (i : Nat) (s : State) : State :=
  let s2 := step (step s (.removedC i)) (.createdC i)
  step s2 (.pollC i (maxDown s2))

theorem cPollC_all (n : Nat) (c : Client) (h : c.down.length ≤ n) : cPollC n c = cPollC c.down.length c := by
  unfold cPollC
  split
  · rw [List.take_of_length_le h, List.drop_eq_nil_of_le h, List.take_of_length_le (Nat.le_refl _),
      List.drop_eq_nil_of_le (Nat.le_refl _)]
  · rfl

theorem two_steps_clients (i : Nat) (s : State) :
    (step (step s (.removedC i)) (.createdC i)).clients = onClient i (fun c => cCreated (cRemoved c)) s.clients := by
  rw [step_createdC, step_removedC]
  exact onClient_onClient i cCreated cRemoved _ (fun c => by unfold cRemoved; split <;> rfl)

theorem clientPhase_eq (i : Nat) (s : State) :
    (clientPhase i s).clients = onClient i cRound s.clients ∧ (clientPhase i s).host = s.host := by
  unfold clientPhase
  dsimp only
  refine ⟨?_, rfl⟩
  rw [step_pollC]
  dsimp only
  rw [two_steps_clients, onClient_onClient i (cPollC _) (fun c => cCreated (cRemoved c)) _
    (fun c => by unfold cCreated cRemoved; split <;> split <;> rfl)]
  apply onClient_congr
  intro c hc hci
  have hmem : cCreated (cRemoved c) ∈ (step (step s (.removedC i)) (.createdC i)).clients := by
    rw [two_steps_clients]
    unfold onClient
    exact List.mem_map.mpr ⟨c, hc, by simp [hci]⟩
  exact cPollC_all _ _ (le_maxDown _ _ hmem)

/-- after its visit a connected client has announced what it had to announce and emptied its channel -/
def Post1 (c : Client) : Prop :=
  c.connected = true → c.p.marked = false ∧ noticed c.p = false ∧ c.down = []

theorem created_post (p : Peer) : (created p).marked = false ∧ (noticed p = false → noticed (created p) = false) := by
  rcases p with ⟨mk, k, t, w⟩
  cases mk <;> simp [created, noticed]

theorem cRemoved_post (c : Client) (hc : c.connected = true) :
    noticed (cRemoved c).p = false ∧ (cRemoved c).connected = true ∧ (cRemoved c).p.marked = c.p.marked := by
  cases hn : noticed c.p with
  | false =>
    have e : cRemoved c = c := by simp [cRemoved, hn]
    rw [e]; exact ⟨hn, hc, rfl⟩
  | true =>
    have e : cRemoved c = { c with p := { c.p with tracked := false }, up := c.up ++ [.delete] } := by
      simp [cRemoved, hc, hn]
    rw [e]; exact ⟨by simp [noticed], hc, rfl⟩

theorem cCreated_post (c : Client) (hc : c.connected = true) (hn : noticed c.p = false) :
    (cCreated c).p.marked = false ∧ noticed (cCreated c).p = false ∧ (cCreated c).connected = true := by
  cases hm : c.p.marked with
  | false =>
    have e : cCreated c = c := by simp [cCreated, hm]
    rw [e]; exact ⟨hm, hn, hc⟩
  | true =>
    have e : cCreated c = { c with p := created c.p, up := c.up ++ [.spawn] } := by simp [cCreated, hc, hm]
    rw [e]; exact ⟨(created_post c.p).1, (created_post c.p).2 hn, hc⟩

theorem cRound_connected (c : Client) : (cRound c).connected = c.connected := by
  unfold cRound cPollC cCreated cRemoved
  split <;> split <;> split <;> simp_all

theorem cRound_post1 (c : Client) : Post1 (cRound c) := by
  intro hcon
  have hc : c.connected = true := by rw [cRound_connected] at hcon; exact hcon
  obtain ⟨a1, a2, _⟩ := cRemoved_post c hc
  obtain ⟨b1, b2, b3⟩ := cCreated_post (cRemoved c) a2 a1
  unfold cRound cPollC
  simp only [b3, if_true, List.take_of_length_le (Nat.le_refl _), List.drop_eq_nil_of_le (Nat.le_refl _)]
  obtain ⟨x, y⟩ := noticed_clientFold (cCreated (cRemoved c)).down (cCreated (cRemoved c)).p b2
  exact ⟨y.trans b1, x, trivial⟩

/-- a client with nothing to announce announces nothing -/
theorem cRound_up (c : Client) (h : c.connected = true → c.p.marked = false ∧ noticed c.p = false) (hu : c.up = []) :
    (cRound c).up = [] := by
  unfold cRound cPollC cCreated cRemoved
  by_cases hc : c.connected = true
  · obtain ⟨a, b⟩ := h hc
    simp [hc, a, b, hu]
  · simp [hc, hu]

/-! ## the host's part of a round -/

def Keeps (cs cs' : List Client) : Prop :=
  ∀ c' ∈ cs', ∃ c ∈ cs, c'.id = c.id ∧ c'.p = c.p ∧ c'.connected = c.connected

theorem keeps_refl (cs : List Client) : Keeps cs cs := fun c hc => ⟨c, hc, rfl, rfl, rfl⟩

theorem keeps_trans {a b c : List Client} (h1 : Keeps a b) (h2 : Keeps b c) : Keeps a c := by
  intro x hx
  obtain ⟨y, hy, e1, e2, e3⟩ := h2 x hx
  obtain ⟨z, hz, f1, f2, f3⟩ := h1 y hy
  exact ⟨z, hz, e1.trans f1, e2.trans f2, e3.trans f3⟩

theorem keeps_map (g : Client → Client) (cs : List Client)
    (hg : ∀ c, (g c).id = c.id ∧ (g c).p = c.p ∧ (g c).connected = c.connected) : Keeps cs (cs.map g) := by
  intro x hx
  obtain ⟨c, hc, rfl⟩ := List.mem_map.mp hx
  exact ⟨c, hc, (hg c).1, (hg c).2.1, (hg c).2.2⟩

def clearUp (c : Client) : Client := { c with up := [] }

/-- the host handles a run of messages of client `i`: only `down` channels change, the host stays without anything to
announce -/
theorem hostFold_keeps (i : Nat) (l : List M) (t : State) (hn : noticed t.host = false) :
    noticed (l.foldl (hostOne i) t).host = false ∧ (l.foldl (hostOne i) t).host.marked = t.host.marked ∧
    (∀ c' ∈ (l.foldl (hostOne i) t).clients, ∃ c ∈ t.clients, c'.id = c.id ∧ c'.p = c.p ∧ c'.connected = c.connected ∧ c'.up = c.up) ∧
    (l.foldl (hostOne i) t).clients.map (·.id) = t.clients.map (·.id) := by
  induction l generalizing t with
  | nil => exact ⟨hn, rfl, fun c hc => ⟨c, hc, rfl, rfl, rfl, rfl⟩, rfl⟩
  | cons m l ih =>
    have hh : (hostOne i t m).host = (hostRecv t.host m).1 := rfl
    have hc : (hostOne i t m).clients = relay i (hostRecv t.host m).2 t.clients := rfl
    obtain ⟨n1, n2⟩ := noticed_hostRecv t.host m hn
    obtain ⟨a, b, c, d⟩ := ih (hostOne i t m) (by rw [hh]; exact n1)
    simp only [List.foldl_cons]
    refine ⟨a, by rw [b, hh, n2], ?_, ?_⟩
    · intro c' hc'
      obtain ⟨x, hx, e1, e2, e3, e4⟩ := c c' hc'
      rw [hc] at hx
      unfold relay at hx
      obtain ⟨y, hy, rfl⟩ := List.mem_map.mp hx
      refine ⟨y, hy, ?_⟩
      split at e1 <;> split at e2 <;> split at e3 <;> split at e4 <;> simp_all
    · rw [d, hc]
      unfold relay
      exact ids_map _ _ (fun c => by split <;> rfl)

theorem findClient_none_absent' {i : Nat} {cs : List Client} (h : findClient i cs = none) : ∀ c ∈ cs, c.id ≠ i :=
  findClient_none_absent h

/-- one `pollH` that takes everything -/
theorem pollH_all (i : Nat) (t : State) (hn : noticed t.host = false) :
    noticed (step t (.pollH i (maxUp t))).host = false ∧ (step t (.pollH i (maxUp t))).host.marked = t.host.marked ∧
    (∀ c' ∈ (step t (.pollH i (maxUp t))).clients, ∃ c ∈ t.clients, c'.id = c.id ∧ c'.p = c.p ∧ c'.connected = c.connected ∧
      (c'.up = c.up ∨ c'.up = []) ∧ (c.id = i → c'.up = [])) ∧
    (step t (.pollH i (maxUp t))).clients.map (·.id) = t.clients.map (·.id) := by
  rw [step_pollH]
  cases hf : findClient i t.clients with
  | none =>
    refine ⟨hn, rfl, fun c hc => ⟨c, hc, rfl, rfl, rfl, Or.inl rfl, fun h => absurd h (findClient_none_absent hf c hc)⟩, rfl⟩
  | some c0 =>
    dsimp only
    obtain ⟨a, b, c, d⟩ := hostFold_keeps i (c0.up.take (maxUp t))
      { t with clients := onClient i (fun c => { c with up := c.up.drop (maxUp t) }) t.clients } hn
    refine ⟨a, b, ?_, ?_⟩
    · intro c' hc'
      obtain ⟨x, hx, e1, e2, e3, e4⟩ := c c' hc'
      obtain ⟨y, hy, rfl⟩ := mem_onClient hx
      refine ⟨y, hy, ?_⟩
      have hdrop : y.up.drop (maxUp t) = [] := List.drop_eq_nil_of_le (le_maxUp t y hy)
      by_cases hi : y.id = i
      · simp only [hi, if_true] at e1 e2 e3 e4
        exact ⟨e1.trans hi.symm ▸ rfl, e2, e3, Or.inr (by rw [e4, hdrop]), fun _ => by rw [e4, hdrop]⟩
      · simp only [hi, if_false] at e1 e2 e3 e4
        exact ⟨e1, e2, e3, Or.inl e4, fun h => absurd h hi⟩
    · rw [d]
      exact ids_onClient _ _ _ (fun _ => rfl)

def hostPhase (s : State) : State :=
  let s2 := step (step s .removedH) .createdH
  (s2.clients.map (·.id)).foldl (fun t i => step t (.pollH i (maxUp t))) s2

theorem removedH_post (s : State) : noticed (step s .removedH).host = false ∧ (step s .removedH).host.marked = s.host.marked ∧
    Keeps s.clients (step s .removedH).clients ∧ (step s .removedH).clients.map (·.id) = s.clients.map (·.id) := by
  simp only [step]
  split
  · refine ⟨by simp [noticed], rfl, ?_, ?_⟩
    · unfold broadcast
      exact keeps_map _ _ (fun c => by split <;> exact ⟨rfl, rfl, rfl⟩)
    · unfold broadcast
      exact ids_map _ _ (fun c => by split <;> rfl)
  · rename_i h
    exact ⟨by simpa using h, rfl, keeps_refl _, rfl⟩

theorem createdH_post (s : State) (hn : noticed s.host = false) :
    noticed (step s .createdH).host = false ∧ (step s .createdH).host.marked = false ∧
    Keeps s.clients (step s .createdH).clients ∧ (step s .createdH).clients.map (·.id) = s.clients.map (·.id) := by
  simp only [step]
  split
  · refine ⟨(created_post s.host).2 hn, (created_post s.host).1, ?_, ?_⟩
    · unfold broadcast
      exact keeps_map _ _ (fun c => by split <;> exact ⟨rfl, rfl, rfl⟩)
    · unfold broadcast
      exact ids_map _ _ (fun c => by split <;> rfl)
  · rename_i h
    exact ⟨hn, by simpa using h, keeps_refl _, rfl⟩

theorem hostPhase_post (s : State) :
    (hostPhase s).host.marked = false ∧ noticed (hostPhase s).host = false ∧
    (∀ c ∈ (hostPhase s).clients, c.up = []) ∧ (hostPhase s).clients.map (·.id) = s.clients.map (·.id) ∧
    Keeps s.clients (hostPhase s).clients := by
  unfold hostPhase
  dsimp only
  obtain ⟨r1, _, r3, r4⟩ := removedH_post s
  obtain ⟨c1, c2, c3, c4⟩ := createdH_post (step s .removedH) r1
  have key := foldl_inv (fun t i => step t (.pollH i (maxUp t)))
    (fun done t => noticed t.host = false ∧ t.host.marked = false ∧
      Keeps (step (step s .removedH) .createdH).clients t.clients ∧
      t.clients.map (·.id) = (step (step s .removedH) .createdH).clients.map (·.id) ∧
      (∀ c ∈ t.clients, c.id ∈ done → c.up = []))
    ((step (step s .removedH) .createdH).clients.map (·.id)) [] (step (step s .removedH) .createdH)
    ⟨c1, c2, keeps_refl _, rfl, fun _ _ h => by simp at h⟩
    (by
      intro done i t ⟨h1, h2, h3, h4, h5⟩
      obtain ⟨p1, p2, p3, p4⟩ := pollH_all i t h1
      refine ⟨p1, p2.trans h2, ?_, p4.trans h4, ?_⟩
      · refine keeps_trans h3 ?_
        intro c' hc'
        obtain ⟨c, hc, e1, e2, e3, _⟩ := p3 c' hc'
        exact ⟨c, hc, e1, e2, e3⟩
      · intro c' hc' hin
        obtain ⟨c, hc, e1, _, _, e4, e5⟩ := p3 c' hc'
        simp only [List.mem_append, List.mem_singleton] at hin
        rcases hin with hin | hin
        · have := h5 c hc (e1 ▸ hin)
          rcases e4 with e4 | e4
          · rw [e4, this]
          · exact e4
        · exact e5 (e1 ▸ hin))
  simp only [List.nil_append] at key
  obtain ⟨k1, k2, k3, k4, k5⟩ := key
  refine ⟨k2, k1, ?_, k4.trans (c4.trans r4), keeps_trans (keeps_trans r3 c3) k3⟩
  intro c hc
  apply k5 c hc
  rw [← k4]
  exact List.mem_map.mpr ⟨c, hc, rfl⟩

/-! ## rounds -/

def round (s : State) : State :=
  (s.clients.map (·.id)).foldl (fun t i => clientPhase i t) (hostPhase s)

theorem clientsFold (is : List Nat) (t : State) :
    (is.foldl (fun t i => clientPhase i t) t).host = t.host ∧
    (is.foldl (fun t i => clientPhase i t) t).clients = is.foldl (fun cs i => onClient i cRound cs) t.clients := by
  induction is generalizing t with
  | nil => exact ⟨rfl, rfl⟩
  | cons i is ih =>
    obtain ⟨h1, h3⟩ := ih (clientPhase i t)
    obtain ⟨e1, e2⟩ := clientPhase_eq i t
    simp only [List.foldl_cons]
    exact ⟨h1.trans e2, by rw [h3, e1]⟩

theorem ids_foldOn (F : Client → Client) (hid : ∀ c, (F c).id = c.id) (is : List Nat) (cs : List Client) :
    (is.foldl (fun cs i => onClient i F cs) cs).map (·.id) = cs.map (·.id) := by
  induction is generalizing cs with
  | nil => rfl
  | cons i is ih => simp only [List.foldl_cons]; rw [ih, ids_onClient i F cs hid]

theorem foldOn_post (F : Client → Client) (Pre Post : Client → Prop) (hid : ∀ c, (F c).id = c.id)
    (hF : ∀ c, Pre c → Post (F c)) (hS : ∀ c, Post c → Post (F c)) (cs : List Client) (hpre : ∀ c ∈ cs, Pre c) :
    ∀ c ∈ (cs.map (·.id)).foldl (fun cs i => onClient i F cs) cs, Post c := by
  have key := foldl_inv (fun cs i => onClient i F cs)
    (fun done cs' => ∀ c ∈ cs', (Pre c ∨ Post c) ∧ (c.id ∈ done → Post c)) (cs.map (·.id)) [] cs
    (fun c hc => ⟨Or.inl (hpre c hc), fun h => by simp at h⟩)
    (by
      intro done i cs' h
      apply forall_onClient
      · intro c hc hne
        refine ⟨(h c hc).1, fun hin => ?_⟩
        simp only [List.mem_append, List.mem_singleton] at hin
        rcases hin with hin | hin
        · exact (h c hc).2 hin
        · exact absurd hin hne
      · intro c hc _
        have hp : Post (F c) := by
          rcases (h c hc).1 with hp | hp
          · exact hF c hp
          · exact hS c hp
        exact ⟨Or.inr hp, fun _ => hp⟩)
  intro c hc
  simp only [List.nil_append] at key
  apply (key c hc).2
  have := ids_foldOn F hid (cs.map (·.id)) cs
  rw [← this]
  exact List.mem_map.mpr ⟨c, hc, rfl⟩

/-- **two fair rounds without application operations end in quiescence — from any state whatsoever.** -/
theorem two_rounds_quiescent (s : State) : Quiescent (round (round s)) := by
  have r1 : ∀ s : State, (round s).host.marked = false ∧ noticed (round s).host = false ∧
      ∀ c ∈ (round s).clients, Post1 c := by
    intro s
    obtain ⟨a1, a2, _, a4, _⟩ := hostPhase_post s
    obtain ⟨f1, f3⟩ := clientsFold (s.clients.map (·.id)) (hostPhase s)
    unfold round
    refine ⟨by rw [f1]; exact a1, by rw [f1]; exact a2, ?_⟩
    rw [f3, ← a4]
    exact foldOn_post cRound (fun _ => True) Post1 cRound_id (fun c _ => cRound_post1 c) (fun c _ => cRound_post1 c) _
      (fun _ _ => trivial)
  have r2 : ∀ s : State, (∀ c ∈ s.clients, Post1 c) → ∀ c ∈ (round s).clients, Post1 c ∧ c.up = [] := by
    intro s hs
    obtain ⟨_, _, a3, a4, a5⟩ := hostPhase_post s
    obtain ⟨_, f3⟩ := clientsFold (s.clients.map (·.id)) (hostPhase s)
    unfold round
    rw [f3, ← a4]
    apply foldOn_post cRound
      (fun c => (c.connected = true → c.p.marked = false ∧ noticed c.p = false) ∧ c.up = [])
      (fun c => Post1 c ∧ c.up = []) cRound_id
    · intro c ⟨h1, h2⟩
      exact ⟨cRound_post1 c, cRound_up c h1 h2⟩
    · intro c ⟨h1, h2⟩
      exact ⟨cRound_post1 c, cRound_up c (fun hc => ⟨(h1 hc).1, (h1 hc).2.1⟩) h2⟩
    · intro c' hc'
      obtain ⟨c, hc, _, e2, e3⟩ := a5 c' hc'
      refine ⟨fun hcon => ?_, a3 c' hc'⟩
      obtain ⟨p1, p2, _⟩ := hs c hc (e3 ▸ hcon)
      exact ⟨by rw [e2]; exact p1, by rw [e2]; exact p2⟩
  obtain ⟨_, _, b3⟩ := r1 s
  obtain ⟨c1, c2, _⟩ := r1 (round s)
  refine ⟨c1, c2, fun c hc hcon => ?_⟩
  obtain ⟨h1', hup⟩ := r2 (round s) b3 c hc
  obtain ⟨p1, p2, p3⟩ := h1' hcon
  exact ⟨p1, p2, hup, p3⟩

/-! ## a round is a schedule of the model's own actions; "once drained" is reached, not assumed -/

/-- an action of the replication machinery alone: no mark, no despawn, nobody leaving -/
def machinery : Act → Bool
  | .markH | .markC _ | .despawnH | .despawnC _ | .leave _ => false
  | _ => true

def QuietE (s t : State) : Prop := ∃ as : List Act, (∀ a ∈ as, machinery a = true) ∧ t = run s as

theorem quietE_refl (s : State) : QuietE s s := ⟨[], fun _ h => by simp at h, rfl⟩

theorem quietE_trans {a b c : State} (h1 : QuietE a b) (h2 : QuietE b c) : QuietE a c := by
  obtain ⟨l1, w1, e1⟩ := h1
  obtain ⟨l2, w2, e2⟩ := h2
  refine ⟨l1 ++ l2, ?_, ?_⟩
  · intro x hx
    rcases List.mem_append.mp hx with h | h
    · exact w1 x h
    · exact w2 x h
  · rw [e2, e1]; simp [run, List.foldl_append]

theorem quietE_step (s : State) (a : Act) (h : machinery a = true) : QuietE s (step s a) :=
  ⟨[a], fun x hx => by simp only [List.mem_singleton] at hx; rw [hx]; exact h, rfl⟩

theorem quietE_foldl {β : Type} (g : State → β → State) (hg : ∀ t b, QuietE t (g t b)) (l : List β) (s : State) :
    QuietE s (l.foldl g s) := by
  induction l generalizing s with
  | nil => exact quietE_refl s
  | cons b l ih => exact quietE_trans (hg s b) (ih _)

theorem quietE_round (s : State) : QuietE s (round s) := by
  unfold round
  refine quietE_trans ?_ (quietE_foldl _ (fun t i => ?_) _ _)
  · unfold hostPhase
    dsimp only
    exact quietE_trans (quietE_trans (quietE_step _ _ rfl) (quietE_step _ _ rfl))
      (quietE_foldl _ (fun t i => quietE_step t _ rfl) _ _)
  · unfold clientPhase
    dsimp only
    exact quietE_trans (quietE_trans (quietE_step _ _ rfl) (quietE_step _ _ rfl)) (quietE_step _ _ rfl)

theorem quiescence_reached (s : State) : ∃ as : List Act, (∀ a ∈ as, machinery a = true) ∧ Quiescent (run s as) := by
  obtain ⟨as, hw, he⟩ := quietE_trans (quietE_round s) (quietE_round _)
  exact ⟨as, hw, he ▸ two_rounds_quiescent s⟩

theorem spawnOnly_of_machinery (a : Act) (h : machinery a = true) : SpawnOnly a := by
  cases a <;> simp_all [SpawnOnly, machinery]

theorem spawnOnlyW_of_machinery (w : Nat) (a : Act) (h : machinery a = true) : SpawnOnlyW w a := by
  cases a <;> simp_all [SpawnOnlyW, machinery]

theorem noMark_of_machinery (a : Act) (h : machinery a = true) : NoMark a := by
  cases a <;> simp_all [NoMark, machinery]

/-- **C01, entity marked on the host, without assuming the drain**: after any interleaving of a spawn epoch there is a
continuation of the replication machinery alone (two fair rounds) after which the host and every connected client hold
exactly one replica -/
theorem host_origin_total (s : State) (as : List Act) (h0 : HostMarked s) (ha : ∀ a ∈ as, SpawnOnly a) :
    ∃ more : List Act, (∀ a ∈ more, machinery a = true) ∧
      (run (run s as) more).host.count = 1 ∧ ∀ c ∈ (run (run s as) more).clients, c.connected = true → c.p.count = 1 := by
  obtain ⟨more, hw, hq⟩ := quiescence_reached (run s as)
  refine ⟨more, hw, ?_⟩
  have e : run (run s as) more = run s (as ++ more) := by simp [run, List.foldl_append]
  rw [e] at hq ⊢
  exact (host_origin_converges s (as ++ more) h0 (fun a h => by
    rcases List.mem_append.mp h with h | h
    · exact ha a h
    · exact spawnOnly_of_machinery a (hw a h))).2.2 hq

/-- **C01, entity marked on client `w`, without assuming the drain** -/
theorem client_origin_total (w : Nat) (s : State) (as : List Act) (h0 : ClientMarked w s)
    (ha : ∀ a ∈ as, SpawnOnlyW w a) (hw : ∃ c ∈ s.clients, c.id = w) :
    ∃ more : List Act, (∀ a ∈ more, machinery a = true) ∧
      (run (run s as) more).host.count = 1 ∧ ∀ c ∈ (run (run s as) more).clients, c.connected = true → c.p.count = 1 := by
  obtain ⟨more, hm, hq⟩ := quiescence_reached (run s as)
  refine ⟨more, hm, ?_⟩
  have e : run (run s as) more = run s (as ++ more) := by simp [run, List.foldl_append]
  rw [e] at hq ⊢
  exact (client_origin_converges w s (as ++ more) h0 (fun a h => by
    rcases List.mem_append.mp h with h | h
    · exact ha a h
    · exact spawnOnlyW_of_machinery w a (hm a h))).2.2 hw hq

/-- **C01, despawns, without assuming the drain**: after any despawn history there is a continuation of the machinery alone
after which all connected peers agree (everybody lost the entity as soon as one of them did) -/
theorem despawns_total (s : State) (as : List Act) (h0 : Live s) (ha : ∀ a ∈ as, NoMark a) :
    ∃ more : List Act, (∀ a ∈ more, machinery a = true) ∧
      (((run (run s as) more).host.count = 0 → ∀ c ∈ (run (run s as) more).clients, c.connected = true → c.p.count = 0) ∧
       (∀ c ∈ (run (run s as) more).clients, c.connected = true → c.p.count = 0 →
          (run (run s as) more).host.count = 0 ∧ ∀ c' ∈ (run (run s as) more).clients, c'.connected = true → c'.p.count = 0)) := by
  obtain ⟨more, hm, hq⟩ := quiescence_reached (run s as)
  refine ⟨more, hm, ?_⟩
  have e : run (run s as) more = run s (as ++ more) := by simp [run, List.foldl_append]
  rw [e] at hq ⊢
  have := del_agreement _ (delinv_run s (as ++ more) (live_delinv s h0) (fun a h => by
    rcases List.mem_append.mp h with h | h
    · exact ha a h
    · exact noMark_of_machinery a (hm a h))) hq
  exact ⟨this.1, this.2.1⟩

end Ent
end BevySync
