import BevySyncModel.Slice.Promo
/-! The hand-over with one client: every schedule of the two peers' frames goes through the finitely many states
listed by `reach0` (closure checked by the kernel), and every state of that list in which nothing moves any more
is the completed hand-over. -/
namespace BevySync
namespace Promo

def succs (s : State) : List State := allActs.map (step s)

/-- breadth-first closure with fuel -/
def close : Nat → List State → List State
  | 0, l => l
  | fuel + 1, l =>
    let new := (l.flatMap succs).filter (fun s => !l.contains s)
    if new.isEmpty then l else close fuel (l ++ new.eraseDups)

def reach0 : List State := close 40 [init 0]

theorem mem_allActs (a : Act) : a ∈ allActs := by
  cases a with
  | pFrame d x => cases d <;> cases x <;> decide
  | hFrame d g => cases d <;> cases g <;> decide
  | otherLeaves => decide

theorem reach0_closed : ∀ s ∈ reach0, ∀ a : Act, step s a ∈ reach0 := by
  have h : ∀ s ∈ reach0, ∀ a ∈ allActs, step s a ∈ reach0 := by decide +kernel
  intro s hs a
  exact h s hs a (mem_allActs a)

theorem init_in_reach0 : init 0 ∈ reach0 := by decide +kernel

theorem run_in_reach0 (as : List Act) : ∀ s ∈ reach0, run s as ∈ reach0 := by
  induction as with
  | nil => intro s hs; exact hs
  | cons a as ih => intro s hs; exact ih _ (reach0_closed s hs a)

theorem reach0_settled_done : ∀ s ∈ reach0, Settled s → Done s := by decide +kernel

/-- safety along the way: somebody hosts at every moment, the snapshot is requested at most once, and H does not
ask for it before its own server is gone -/
theorem reach0_safe : ∀ s ∈ reach0, (s.hSrv = true ∨ s.pSrv = true) ∧ s.snapReq ≤ 1 ∧ (s.snapReq = 1 → s.hSrv = false) := by
  decide +kernel

/-- with one client every schedule ends in the completed hand-over -/
theorem one_client_handover (as : List Act) (h : Settled (run (init 0) as)) : Done (run (init 0) as) :=
  reach0_settled_done _ (run_in_reach0 as _ init_in_reach0) h

theorem one_client_safe (as : List Act) :
    ((run (init 0) as).hSrv = true ∨ (run (init 0) as).pSrv = true) ∧ (run (init 0) as).snapReq ≤ 1 :=
  let h := reach0_safe _ (run_in_reach0 as _ init_in_reach0)
  ⟨h.1, h.2.1⟩

/-- the completed state is reached (the statement above is not vacuous) -/
theorem one_client_completes :
    Settled (run (init 0) [.pFrame true false, .hFrame true false, .hFrame false false, .pFrame false true,
      .hFrame false true, .hFrame false false]) ∧
    Done (run (init 0) [.pFrame true false, .hFrame true false, .hFrame false false, .pFrame false true,
      .hFrame false true, .hFrame false false]) := by
  decide

/-- **D7b (recorded finding).** With a second client that leaves the former host only after the former host's own
connection to the new host is up, the flag has been spent by `verify_client_connected`: the former host never
closes its server — everything has settled and two peers are hosting. -/
def stuckSchedule : List Act :=
  [.pFrame true false, .hFrame true false, .hFrame false false, .pFrame false true, .hFrame false true,
   .hFrame false false, .otherLeaves, .hFrame false false]

theorem two_clients_stuck :
    Settled (run (init 1) stuckSchedule) ∧ (run (init 1) stuckSchedule).hSrv = true ∧
    (run (init 1) stuckSchedule).pSrv = true ∧ (run (init 1) stuckSchedule).snapReq = 0 := by
  decide

end Promo
end BevySync
