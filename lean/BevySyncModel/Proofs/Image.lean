import BevySyncModel.Codec.Image
import BevySyncModel.Proofs.Lz4
import BevySyncModel.Proofs.Wire
namespace BevySync
namespace Codec
open Wire

theorem tableOk_spec (names : List (List UInt8)) (h : tableOk names = true) (i : Nat)
    (hi : i < names.length) : findIdx names (names.getD i []) = Option.some i := by
  unfold tableOk at h
  rw [List.all_eq_true] at h
  have := h i (List.mem_range.mpr hi)
  simpa using this

theorem dimOfCode_id (d : Nat) (h : (d == 1 || d == 2 || d == 3) = true) : dimOfCode d = d := by
  simp only [Bool.or_eq_true, beq_iff_eq] at h
  rcases h with (rfl | rfl) | rfl <;> rfl

theorem dataToImage_imageToData (names : List (List UInt8)) (ht : tableOk names = true)
    (i : Image) (hd : (i.dim == 1 || i.dim == 2 || i.dim == 3) = true) (hf : i.fmt < names.length) :
    dataToImage names (imageToData names i) = Option.some i := by
  simp only [imageToData, ValList.ofList, dataToImage, tableOk_spec names ht i.fmt hf, dimOfCode_id _ hd]

theorem binToImage_imageToBin (names : List (List UInt8)) (ht : tableOk names = true)
    (i : Image) (h : i.wf names = true) :
    binToImage names (imageToBin names i) = .ok (Option.some i) := by
  simp only [Image.wf, Bool.and_eq_true, decide_eq_true_eq] at h
  obtain ⟨⟨hd, hf⟩, hw⟩ := h
  rw [binToImage, imageToBin, Lz4.lz4_roundtrip]
  simp only [decode_enc _ _ hw, dataToImage_imageToData names ht i hd hf]

end Codec
end BevySync
