import BevySyncModel.Codec.Message
import BevySyncModel.Proofs.Wire
import BevySyncModel.Proofs.Mesh
namespace BevySync
namespace Codec
open Wire

theorem optMapNat_map (w : Nat) (l : List Nat) : optMapNat valNat (l.map (Val.int w)) = Option.some l := by
  induction l with
  | nil => rfl
  | cons a l ih => simp [optMapNat, valNat, ih]

@[simp] theorem valOctets_octetsVal (o : List Nat) : valOctets (octetsVal o) = Option.some o := by
  simp [valOctets, octetsVal, optMapNat_map]

@[simp] theorem valIp_ipVal (ip : Ip) : valIp (ipVal ip) = Option.some ip := by
  cases ip <;> simp [valIp, ipVal, ValList.ofList]

@[simp] theorem valConnParams_connParamsVal (p : ConnParams) :
    valConnParams (connParamsVal p) = Option.some p := by
  simp [valConnParams, connParamsVal, ValList.ofList]

theorem valToMsg_msgToVal (m : Msg) : valToMsg (msgToVal m) = Option.some m := by
  cases m <;> simp [valToMsg, msgToVal, payload, ValList.ofList]

theorem decodeMsg_encodeMsg (m : Msg) (h : m.wf = true) : decodeMsg (encodeMsg m) = Option.some m := by
  unfold decodeMsg encodeMsg
  rw [decode_enc _ _ h]
  exact valToMsg_msgToVal m

theorem decodeMsg_encodeMsg_trailing (m : Msg) (r : List UInt8) (h : m.wf = true) :
    decodeMsg (encodeMsg m ++ r) = Option.some m := by
  unfold decodeMsg encodeMsg
  rw [decode_enc_trailing _ _ r h]
  exact valToMsg_msgToVal m

end Codec
end BevySync
