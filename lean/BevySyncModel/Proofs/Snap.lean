import BevySyncModel.Slice.Snap
import BevySyncModel.Proofs.Comp
/-! Invariants of the snapshot slice: whatever the joiner received before its snapshot, whatever it still held
from an earlier connection and however the snapshot interleaves with the live traffic, once everything is
handled it holds the host's entity and value, exactly one replica, and it never announced anything. -/
namespace BevySync
namespace Snap
open Comp (lastOr lastOr_append lastOr_snoc lastOr_cons lastOr_nil)

variable {V : Type} [DecidableEq V]

theorem ev_append (bx : Bool × Option V) (a b : List (Msg V)) : ev bx (a ++ b) = ev (ev bx a) b := by
  simp [ev, List.foldl_append]

@[simp] theorem ev_nil (bx : Bool × Option V) : ev bx [] = bx := rfl
@[simp] theorem ev_cons (bx : Bool × Option V) (m : Msg V) (l : List (Msg V)) : ev bx (m :: l) = ev (evStep bx m) l := rfl

theorem ev_present (x : Option V) (l : List (Msg V)) : (ev (true, x) l).1 = true := by
  induction l generalizing x with
  | nil => rfl
  | cons m l ih =>
    cases m with
    | spawn => simpa [evStep] using ih x
    | upd v => simpa [evStep] using ih (some v)

theorem ev_present_of (bx : Bool × Option V) (l : List (Msg V)) (h : bx.1 = true) : (ev bx l).1 = true := by
  obtain ⟨b, x⟩ := bx
  simp only at h
  subst h
  exact ev_present x l

theorem ev_upds (x : Option V) (q : List V) : ev (true, x) (q.map .upd) = (true, lastOr x q) := by
  induction q generalizing x with
  | nil => rfl
  | cons v q ih => simpa [evStep] using ih (some v)

theorem ev_snoc_upd (bx : Bool × Option V) (l : List (Msg V)) (v : V) (h : (ev bx l).1 = true) :
    ev bx (l ++ [.upd v]) = (true, some v) := by
  rw [ev_append]
  generalize ev bx l = r at h
  obtain ⟨b, x⟩ := r
  simp only at h
  subst h
  rfl

theorem ev_snoc_spawn (bx : Bool × Option V) (l : List (Msg V)) : (ev bx (l ++ [.spawn])).1 = true := by
  rw [ev_append]
  generalize ev bx l = r
  obtain ⟨b, x⟩ := r
  rfl

theorem lastOr_some_ne_none (v : V) (q : List V) : lastOr (some v) q ≠ none := by
  induction q generalizing v with
  | nil => simp
  | cons w q ih => simpa using ih w

def pending (j : Joiner V) : List (Msg V) := j.defer ++ j.down

/-- what the joiner holds now: replica present?, component value -/
def cur (j : Joiner V) : Bool × Option V := (j.present, j.p.val)

/-- bookkeeping that holds whatever the interleaving -/
def Struct (s : State V) : Prop :=
  (s.j.present = false → s.j.p = {}) ∧ s.j.p.token = s.j.p.dirty ∧ s.j.p.queue = [] ∧ s.j.up = [] ∧
  s.j.count = (if s.j.present then 1 else 0) ∧
  (s.j.connected = false → s.j.defer = [] ∧ s.j.down = [] ∧ s.j.snapped = false) ∧
  (s.host.present = false → s.host.p = {} ∧ s.j.present = false ∧ s.j.defer = [] ∧ s.j.down = [])

/-- `mode = true`: the host is the writer of the epoch; `false`: it applies and relays another client's values -/
def HostSide (mode : Bool) (h : Host V) : Prop :=
  if mode then h.p.token = false ∧ (h.p.dirty = true → h.p.val ≠ none) ∧
    (h.p.dirty = false → lastOr h.p.val h.p.queue = h.p.val)
  else h.p.token = h.p.dirty ∧ h.p.queue = []

def FollowsHJ (h : Host V) (j : Joiner V) : Prop :=
  j.snapped = true →
    (h.present = true → (ev (cur j) (pending j)).1 = true) ∧
    ∀ v, h.p.val = some v →
      (h.p.dirty = true ∧ h.p.token = false) ∨ (ev (cur j) (pending j ++ h.p.queue.map .upd)).2 = some v

def Follows (s : State V) : Prop := FollowsHJ s.host s.j

def Inv (mode : Bool) (s : State V) : Prop := Struct s ∧ HostSide mode s.host ∧ Follows s

def Allowed (mode : Bool) : Act V → Prop
  | .writeH _ => mode = true
  | .applyH _ => mode = false
  | _ => True

theorem detect_empty : Comp.detect ({} : Comp.Peer V) = {} := by simp [Comp.detect]

theorem send_fields (j : Joiner V) (ms : List (Msg V)) :
    (send j ms).connected = j.connected ∧ (send j ms).snapped = j.snapped ∧ (send j ms).present = j.present ∧
    (send j ms).count = j.count ∧ (send j ms).p = j.p ∧ (send j ms).defer = j.defer ∧ (send j ms).up = j.up ∧
    (send j ms).down = if j.connected then j.down ++ ms else j.down := by
  unfold send; split <;> simp [*]

theorem recv_ev (j : Joiner V) (m : Msg V) (h : j.present = false → j.p = {}) :
    ((recv j m).present, (recv j m).p.val) = evStep (j.present, j.p.val) m := by
  cases m with
  | spawn =>
    cases hp : j.present with
    | true => simp [recv, evStep, hp]
    | false => simp [recv, evStep, hp]
  | upd v =>
    cases hp : j.present with
    | true => simp [recv, evStep, hp, Comp.apply_val]
    | false => simp [recv, evStep, hp]

theorem struct_step (s : State V) (a : Act V) (hs : Struct s) : Struct (step s a) := by
  obtain ⟨s1, s2, s3, s4, s5, s6, s7⟩ := hs
  cases a with
  | createH =>
    simp only [step]
    split
    · exact ⟨s1, s2, s3, s4, s5, s6, s7⟩
    · obtain ⟨f1, f2, f3, f4, f5, f6, f7, f8⟩ := send_fields s.j [Msg.spawn]
      refine ⟨by simp only [f3, f5]; exact s1, by simp only [f5]; exact s2, by simp only [f5]; exact s3,
        by simp only [f7]; exact s4, by simp only [f3, f4]; exact s5, ?_, by simp⟩
      simp only [f1, f2, f6, f8]
      intro hc; simp only [hc, Bool.false_eq_true, if_false]; exact s6 hc
  | writeH v =>
    simp only [step]
    split
    · rename_i hp; exact ⟨s1, s2, s3, s4, s5, s6, fun h => by simp [hp] at h⟩
    · exact ⟨s1, s2, s3, s4, s5, s6, s7⟩
  | applyH v =>
    simp only [step]
    split
    · rename_i hp
      split
      · obtain ⟨f1, f2, f3, f4, f5, f6, f7, f8⟩ := send_fields s.j [Msg.upd v]
        refine ⟨by simp only [f3, f5]; exact s1, by simp only [f5]; exact s2, by simp only [f5]; exact s3,
          by simp only [f7]; exact s4, by simp only [f3, f4]; exact s5, ?_, fun h => by simp [hp] at h⟩
        simp only [f1, f2, f6, f8]
        intro hc; simp only [hc, Bool.false_eq_true, if_false]; exact s6 hc
      · exact ⟨s1, s2, s3, s4, s5, s6, fun h => by simp [hp] at h⟩
    · exact ⟨s1, s2, s3, s4, s5, s6, s7⟩
  | detectH =>
    simp only [step]
    refine ⟨s1, s2, s3, s4, s5, s6, fun h => ?_⟩
    obtain ⟨h1, h2, h3, h4⟩ := s7 h
    exact ⟨by simp only [h1]; exact detect_empty, h2, h3, h4⟩
  | reactH =>
    simp only [step]
    obtain ⟨f1, f2, f3, f4, f5, f6, f7, f8⟩ := send_fields s.j (s.host.p.queue.map Msg.upd)
    refine ⟨by simp only [f3, f5]; exact s1, by simp only [f5]; exact s2, by simp only [f5]; exact s3,
      by simp only [f7]; exact s4, by simp only [f3, f4]; exact s5, ?_, fun h => ?_⟩
    · simp only [f1, f2, f6, f8]
      intro hc; simp only [hc, Bool.false_eq_true, if_false]; exact s6 hc
    · obtain ⟨h1, h2, h3, h4⟩ := s7 h
      refine ⟨by simp only [h1], by simp only [f3]; exact h2, by simp only [f6]; exact h3, ?_⟩
      rw [f8, h1]
      simp [h4]
  | connect =>
    simp only [step]
    exact ⟨s1, s2, s3, s4, s5, fun h => by simp at h, s7⟩
  | snapshot =>
    simp only [step]
    split
    · rename_i hc
      simp only [Bool.and_eq_true, Bool.not_eq_eq_eq_not, Bool.not_true] at hc
      obtain ⟨f1, f2, f3, f4, f5, f6, f7, f8⟩ := send_fields s.j (snapshotOf s.host)
      refine ⟨by simp only [f3, f5]; exact s1, by simp only [f5]; exact s2, by simp only [f5]; exact s3,
        by simp only [f7]; exact s4, by simp only [f3, f4]; exact s5, ?_, fun h => ?_⟩
      · simp only [f1]; intro h; rw [hc.1] at h; cases h
      · have h' : s.host.present = false := h
        obtain ⟨h1, h2, h3, h4⟩ := s7 h'
        refine ⟨h1, by simp only [f3]; exact h2, by simp only [f6]; exact h3, ?_⟩
        show (send s.j (snapshotOf s.host)).down = []
        rw [f8]
        simp [snapshotOf, h', h4]
    · exact ⟨s1, s2, s3, s4, s5, s6, s7⟩
  | pollJ n =>
    simp only [step]
    refine ⟨s1, s2, s3, s4, s5, fun h => ?_, fun h => ?_⟩
    · obtain ⟨h1, h2, h3⟩ := s6 h
      simp [h1, h2, h3]
    · obtain ⟨h1, h2, h3, h4⟩ := s7 h
      simp [h1, h2, h3, h4]
  | flushJ =>
    simp only [step]
    cases hd : s.j.defer with
    | nil => simp only; exact ⟨s1, s2, s3, s4, s5, s6, s7⟩
    | cons m rest =>
      simp only
      have hconn : s.j.connected = true := by
        cases h : s.j.connected with
        | true => rfl
        | false => have := (s6 h).1; rw [hd] at this; cases this
      have hhp : s.host.present = true := by
        cases h : s.host.present with
        | true => rfl
        | false => have := (s7 h).2.2.1; rw [hd] at this; cases this
      cases m with
      | spawn =>
        cases hp : s.j.present with
        | true =>
          simp only [recv, hp, if_true]
          refine ⟨fun h => by simp [hp] at h, s2, s3, s4, by simp only [hp] at s5 ⊢; exact s5,
            fun h => by simp [hconn] at h, fun h => by simp [hhp] at h⟩
        | false =>
          simp only [recv, hp, Bool.false_eq_true, if_false]
          refine ⟨fun h => by simp at h, rfl, rfl, s4, by simp only [hp] at s5; simp [s5],
            fun h => by simp [hconn] at h, fun h => by simp [hhp] at h⟩
      | upd v =>
        cases hp : s.j.present with
        | true =>
          simp only [recv, hp, if_true]
          refine ⟨fun h => by simp [hp] at h, Comp.apply_flags s.j.p v s2, by rw [Comp.apply_queue]; exact s3, s4,
            by simp only [hp] at s5 ⊢; exact s5, fun h => by simp [hconn] at h, fun h => by simp [hhp] at h⟩
        | false =>
          simp only [recv, hp, Bool.false_eq_true, if_false]
          refine ⟨fun _ => s1 hp, s2, s3, s4, by simp only [hp] at s5 ⊢; exact s5,
            fun h => by simp [hconn] at h, fun h => by simp [hhp] at h⟩
  | detectJ =>
    simp only [step]
    obtain ⟨d1, d2⟩ := Comp.detect_flags s.j.p s2
    refine ⟨fun h => by simp only [s1 h]; exact detect_empty, d1, by rw [d2]; exact s3, s4, s5, s6, s7⟩
  | reactJ =>
    simp only [step]
    refine ⟨fun h => by simp only [s1 h], s2, rfl, by simp [s3, s4], s5, s6, s7⟩

theorem hostside_step (mode : Bool) (s : State V) (a : Act V) (hh : HostSide mode s.host) (ha : Allowed mode a) :
    HostSide mode (step s a).host := by
  cases a with
  | createH => simp only [step]; split <;> exact hh
  | writeH v =>
    have hm : mode = true := ha
    subst hm
    simp only [step]
    split
    · obtain ⟨h1, _, _⟩ := hh
      exact ⟨h1, fun _ => by simp [Comp.write], fun h => by simp [Comp.write] at h⟩
    · exact hh
  | applyH v =>
    have hm : mode = false := ha
    subst hm
    obtain ⟨h1, h2⟩ := hh
    simp only [step]
    split
    · split
      · exact ⟨Comp.apply_flags s.host.p v h1, by rw [Comp.apply_queue]; exact h2⟩
      · exact ⟨Comp.apply_flags s.host.p v h1, by rw [Comp.apply_queue]; exact h2⟩
    · exact ⟨h1, h2⟩
  | detectH =>
    simp only [step]
    cases mode with
    | true =>
      obtain ⟨h1, h2, h3⟩ := hh
      cases hd : s.host.p.dirty with
      | false =>
        have e : Comp.detect s.host.p = s.host.p := by simp [Comp.detect, hd]
        rw [e]; exact ⟨h1, h2, h3⟩
      | true =>
        obtain ⟨v, hv⟩ : ∃ v, s.host.p.val = some v := by
          cases h : s.host.p.val with
          | none => exact absurd h (h2 hd)
          | some v => exact ⟨v, rfl⟩
        have e : Comp.detect s.host.p = { s.host.p with dirty := false, queue := s.host.p.queue ++ [v] } := by
          simp [Comp.detect, hd, h1, hv]
        rw [e]
        exact ⟨h1, fun h => by simp at h, fun _ => by simp only [lastOr_snoc, hv]⟩
    | false =>
      obtain ⟨h1, h2⟩ := hh
      obtain ⟨d1, d2⟩ := Comp.detect_flags s.host.p h1
      exact ⟨d1, by rw [d2]; exact h2⟩
  | reactH =>
    simp only [step]
    cases mode with
    | true =>
      obtain ⟨h1, h2, _⟩ := hh
      exact ⟨h1, h2, fun _ => rfl⟩
    | false =>
      obtain ⟨h1, _⟩ := hh
      exact ⟨h1, rfl⟩
  | connect => exact hh
  | snapshot => simp only [step]; split <;> exact hh
  | pollJ n => exact hh
  | flushJ => simp only [step]; split <;> exact hh
  | detectJ => exact hh
  | reactJ => exact hh

theorem present_of_val (s : State V) (hs : Struct s) (v : V) (hv : s.host.p.val = some v) : s.host.present = true := by
  cases h : s.host.present with
  | true => rfl
  | false =>
    have := (hs.2.2.2.2.2.2 h).1
    rw [this] at hv
    cases hv

theorem connected_of_snapped (s : State V) (hs : Struct s) (h : s.j.snapped = true) : s.j.connected = true := by
  cases hc : s.j.connected with
  | true => rfl
  | false => have := (hs.2.2.2.2.2.1 hc).2.2; rw [h] at this; cases this

theorem send_view (j : Joiner V) (ms : List (Msg V)) (hc : j.connected = true) :
    (send j ms).snapped = j.snapped ∧ cur (send j ms) = cur j ∧ pending (send j ms) = pending j ++ ms := by
  simp [send, hc, cur, pending, List.append_assoc]

theorem follows_step (mode : Bool) (s : State V) (a : Act V) (hi : Inv mode s) (ha : Allowed mode a) :
    Follows (step s a) := by
  obtain ⟨hs, hh, hf⟩ := hi
  have hf' : FollowsHJ s.host s.j := hf
  cases a with
  | createH =>
    simp only [step]
    split
    · exact hf
    · rename_i hp
      have hp' : s.host.present = false := by simpa using hp
      have hpe := (hs.2.2.2.2.2.2 hp').1
      show FollowsHJ { s.host with present := true } (send s.j [Msg.spawn])
      intro hsn
      have hc : s.j.connected = true := by
        cases hcc : s.j.connected with
        | true => rfl
        | false =>
          have : (send s.j [Msg.spawn]) = s.j := by simp [send, hcc]
          rw [this] at hsn
          exact absurd (connected_of_snapped s hs hsn) (by simp [hcc])
      obtain ⟨v1, v2, v3⟩ := send_view s.j [Msg.spawn] hc
      refine ⟨fun _ => ?_, fun v hv => ?_⟩
      · rw [v2, v3]; exact ev_snoc_spawn _ _
      · have hv' : s.host.p.val = some v := hv
        rw [hpe] at hv'; cases hv'
  | writeH v =>
    have hm : mode = true := ha
    subst hm
    simp only [step]
    split
    · show FollowsHJ { s.host with p := Comp.write s.host.p v } s.j
      intro hsn
      obtain ⟨g1, g2⟩ := hf' hsn
      exact ⟨g1, fun w _ => Or.inl ⟨rfl, hh.1⟩⟩
    · exact hf
  | applyH v =>
    have hm : mode = false := ha
    subst hm
    obtain ⟨h1, h2⟩ := hh
    simp only [step]
    split
    · rename_i hp
      split
      · show FollowsHJ { s.host with p := (Comp.apply false Comp.replace s.host.p v).1 } (send s.j [Msg.upd v])
        intro hsn
        have hc : s.j.connected = true := by
          cases hcc : s.j.connected with
          | true => rfl
          | false =>
            have : (send s.j [Msg.upd v]) = s.j := by simp [send, hcc]
            rw [this] at hsn
            exact absurd (connected_of_snapped s hs hsn) (by simp [hcc])
        obtain ⟨v1, v2, v3⟩ := send_view s.j [Msg.upd v] hc
        have hsn' : s.j.snapped = true := by rw [← v1]; exact hsn
        obtain ⟨g1, _⟩ := hf' hsn'
        have e : ev (cur s.j) (pending s.j ++ [Msg.upd v]) = (true, some v) := ev_snoc_upd _ _ v (g1 hp)
        refine ⟨fun _ => ?_, fun w hw => Or.inr ?_⟩
        · rw [v2, v3, e]
        · have hw' : (Comp.apply false Comp.replace s.host.p v).1.val = some w := hw
          rw [Comp.apply_val] at hw'
          have hwv : w = v := (Option.some.inj hw').symm
          show (ev (cur (send s.j [Msg.upd v])) (pending (send s.j [Msg.upd v]) ++
            List.map Msg.upd (Comp.apply false Comp.replace s.host.p v).1.queue)).2 = some w
          rw [v2, v3, Comp.apply_queue, h2, List.map_nil, List.append_nil, e, hwv]
      · rename_i hch
        have hch' : (Comp.apply false Comp.replace s.host.p v).2 = false := by simpa using hch
        have e := Comp.apply_unchanged s.host.p v hch'
        show FollowsHJ { s.host with p := (Comp.apply false Comp.replace s.host.p v).1 } s.j
        rw [e]
        exact hf'
    · exact hf
  | detectH =>
    simp only [step]
    show FollowsHJ { s.host with p := Comp.detect s.host.p } s.j
    intro hsn
    obtain ⟨g1, g2⟩ := hf' hsn
    refine ⟨g1, fun v hv => ?_⟩
    have hv' : s.host.p.val = some v := by
      have : (Comp.detect s.host.p).val = some v := hv
      rw [Comp.detect_val] at this; exact this
    cases mode with
    | true =>
      obtain ⟨h1, h2, h3⟩ := hh
      cases hd : s.host.p.dirty with
      | false =>
        have e : Comp.detect s.host.p = s.host.p := by simp [Comp.detect, hd]
        show _ ∨ (ev (cur s.j) (pending s.j ++ List.map Msg.upd (Comp.detect s.host.p).queue)).2 = some v
        rw [e]
        rcases g2 v hv' with ⟨a1, _⟩ | g
        · rw [hd] at a1; cases a1
        · exact Or.inr g
      | true =>
        have e : Comp.detect s.host.p = { s.host.p with dirty := false, queue := s.host.p.queue ++ [v] } := by
          simp [Comp.detect, hd, h1, hv']
        right
        show (ev (cur s.j) (pending s.j ++ List.map Msg.upd (Comp.detect s.host.p).queue)).2 = some v
        rw [e]
        simp only [List.map_append, List.map_cons, List.map_nil, ← List.append_assoc]
        have hpres : (ev (cur s.j) (pending s.j ++ List.map Msg.upd s.host.p.queue)).1 = true := by
          rw [ev_append]
          exact ev_present_of _ _ (g1 (present_of_val s hs v hv'))
        rw [ev_snoc_upd _ _ v hpres]
    | false =>
      obtain ⟨h1, h2⟩ := hh
      obtain ⟨d1, d2⟩ := Comp.detect_flags s.host.p h1
      right
      show (ev (cur s.j) (pending s.j ++ List.map Msg.upd (Comp.detect s.host.p).queue)).2 = some v
      rw [d2]
      rcases g2 v hv' with ⟨a1, a2⟩ | g
      · rw [h1, a1] at a2; cases a2
      · exact g
  | reactH =>
    simp only [step]
    show FollowsHJ { s.host with p := { s.host.p with queue := [] } } (send s.j (s.host.p.queue.map Msg.upd))
    intro hsn
    have hc : s.j.connected = true := by
      cases hcc : s.j.connected with
      | true => rfl
      | false =>
        have : (send s.j (s.host.p.queue.map Msg.upd)) = s.j := by simp [send, hcc]
        rw [this] at hsn
        exact absurd (connected_of_snapped s hs hsn) (by simp [hcc])
    obtain ⟨v1, v2, v3⟩ := send_view s.j (s.host.p.queue.map Msg.upd) hc
    have hsn' : s.j.snapped = true := by rw [← v1]; exact hsn
    obtain ⟨g1, g2⟩ := hf' hsn'
    refine ⟨fun hp => ?_, fun v hv => ?_⟩
    · rw [v2, v3, ev_append]
      exact ev_present_of _ _ (g1 hp)
    · show _ ∨ (ev (cur (send s.j (s.host.p.queue.map Msg.upd))) (pending (send s.j (s.host.p.queue.map Msg.upd)) ++ List.map Msg.upd []) ).2 = some v
      rw [v2, v3, List.map_nil, List.append_nil]
      exact g2 v hv
  | connect =>
    simp only [step]
    show FollowsHJ s.host { s.j with connected := true }
    intro hsn
    exact hf' hsn
  | snapshot =>
    simp only [step]
    split
    · rename_i hc
      simp only [Bool.and_eq_true, Bool.not_eq_eq_eq_not, Bool.not_true] at hc
      obtain ⟨v1, v2, v3⟩ := send_view s.j (snapshotOf s.host) hc.1
      show FollowsHJ s.host { (send s.j (snapshotOf s.host)) with snapped := true }
      intro _
      have c2 : cur { (send s.j (snapshotOf s.host)) with snapped := true } = cur s.j := v2
      have c3 : pending { (send s.j (snapshotOf s.host)) with snapped := true } = pending s.j ++ snapshotOf s.host := v3
      refine ⟨fun hp => ?_, fun v hv => ?_⟩
      · rw [c2, c3, ev_append]
        simp only [snapshotOf, hp, if_true, ev_cons]
        generalize ev (cur s.j) (pending s.j) = r
        obtain ⟨b, x⟩ := r
        exact ev_present _ _
      · have hp' := present_of_val s hs v hv
        have hsnap : snapshotOf s.host = [Msg.spawn, Msg.upd v] := by simp [snapshotOf, hp', hv]
        have e1 : ev (cur s.j) (pending s.j ++ [Msg.spawn, Msg.upd v]) = (true, some v) := by
          have : pending s.j ++ [Msg.spawn, Msg.upd v] = (pending s.j ++ [Msg.spawn]) ++ [Msg.upd v] := by simp
          rw [this]
          exact ev_snoc_upd _ _ v (ev_snoc_spawn _ _)
        rw [c2, c3, hsnap, ev_append, e1, ev_upds]
        cases mode with
        | true =>
          obtain ⟨h1, h2, h3⟩ := hh
          cases hd : s.host.p.dirty with
          | true => exact Or.inl ⟨rfl, h1⟩
          | false =>
            right
            have := h3 hd
            rw [hv] at this
            exact this
        | false =>
          obtain ⟨h1, h2⟩ := hh
          right
          simp [h2]
    · exact hf
  | pollJ n =>
    simp only [step]
    show FollowsHJ s.host { s.j with defer := s.j.defer ++ s.j.down.take n, down := s.j.down.drop n }
    have c3 : pending { s.j with defer := s.j.defer ++ s.j.down.take n, down := s.j.down.drop n } = pending s.j := by
      simp [pending, List.append_assoc]
    intro hsn
    obtain ⟨g1, g2⟩ := hf' hsn
    refine ⟨fun hp => ?_, fun v hv => ?_⟩
    · rw [c3]; exact g1 hp
    · rw [c3]; exact g2 v hv
  | flushJ =>
    simp only [step]
    cases hd : s.j.defer with
    | nil => simp only; exact hf
    | cons m rest =>
      simp only
      show FollowsHJ s.host { (recv s.j m) with defer := rest }
      have hrecv := recv_ev s.j m hs.1
      have hsn_eq : (recv s.j m).snapped = s.j.snapped := by
        cases m <;> simp only [recv] <;> split <;> rfl
      have hdown : (recv s.j m).down = s.j.down := by
        cases m <;> simp only [recv] <;> split <;> rfl
      have c2 : cur { (recv s.j m) with defer := rest } = evStep (cur s.j) m := hrecv
      have c3 : pending { (recv s.j m) with defer := rest } = rest ++ s.j.down := by simp [pending, hdown]
      have hpend : pending s.j = m :: (rest ++ s.j.down) := by simp [pending, hd]
      intro hsn
      have hsn' : s.j.snapped = true := by rw [← hsn_eq]; exact hsn
      obtain ⟨g1, g2⟩ := hf' hsn'
      refine ⟨fun hp => ?_, fun v hv => ?_⟩
      · have := g1 hp
        rw [hpend, ev_cons] at this
        rw [c2, c3]; exact this
      · have := g2 v hv
        rw [hpend, List.cons_append, ev_cons] at this
        rw [c2, c3]; exact this
  | detectJ =>
    simp only [step]
    show FollowsHJ s.host { s.j with p := Comp.detect s.j.p }
    have c2 : cur { s.j with p := Comp.detect s.j.p } = cur s.j := by simp [cur, Comp.detect_val]
    intro hsn
    obtain ⟨g1, g2⟩ := hf' hsn
    refine ⟨fun hp => ?_, fun v hv => ?_⟩
    · rw [c2]; exact g1 hp
    · rw [c2]; exact g2 v hv
  | reactJ =>
    simp only [step]
    show FollowsHJ s.host { s.j with p := { s.j.p with queue := [] }, up := s.j.up ++ s.j.p.queue }
    intro hsn
    exact hf' hsn

theorem inv_step (mode : Bool) (s : State V) (a : Act V) (hi : Inv mode s) (ha : Allowed mode a) :
    Inv mode (step s a) :=
  ⟨struct_step s a hi.1, hostside_step mode s a hi.2.1 ha, follows_step mode s a hi ha⟩

theorem inv_run (mode : Bool) (s : State V) (as : List (Act V)) (hi : Inv mode s) (ha : ∀ a ∈ as, Allowed mode a) :
    Inv mode (run s as) := by
  induction as generalizing s with
  | nil => exact hi
  | cons a as ih => exact ih _ (inv_step mode s a hi (ha a (by simp))) (fun b hb => ha b (by simp [hb]))

/-- what the invariant gives once the joiner is through -/
theorem inv_quiescent (mode : Bool) (s : State V) (hi : Inv mode s) (hq : Quiescent s) :
    (s.host.present = true → s.j.present = true ∧ s.j.count = 1) ∧
    (s.host.present = false → s.j.present = false ∧ s.j.count = 0) ∧
    (∀ v, s.host.p.val = some v → s.j.p.val = some v) ∧ s.j.up = [] := by
  obtain ⟨hs, hh, hf⟩ := hi
  obtain ⟨q1, q2, q3, q4, q5, q6, q7⟩ := hq
  obtain ⟨g1, g2⟩ := hf q1
  obtain ⟨s1, s2, s3, s4, s5, s6, s7⟩ := hs
  refine ⟨fun hp => ?_, fun hp => ?_, fun v hv => ?_, s4⟩
  · have := g1 hp
    simp only [pending, cur, q2, q3, List.append_nil, ev_nil] at this
    exact ⟨this, by rw [s5, this]; rfl⟩
  · have := (s7 hp).2.1
    exact ⟨this, by rw [s5, this]; rfl⟩
  · rcases g2 v hv with ⟨a1, _⟩ | g
    · rw [q6] at a1; cases a1
    · simpa [pending, cur, q2, q3, q7] using g

/-- a client that joins for the first time -/
theorem init_fresh (mode : Bool) (h : Host V) (hh : HostSide mode h) (hp : h.present = false → h.p = {}) :
    Inv mode ({ host := h, j := {} } : State V) := by
  refine ⟨⟨fun _ => rfl, rfl, rfl, rfl, rfl, fun _ => ⟨rfl, rfl, rfl⟩, fun hpr => ⟨hp hpr, rfl, rfl, rfl⟩⟩, hh, ?_⟩
  intro hsn
  cases hsn

/-- a client that comes back still holding the replica (and whatever value) it had, the entity still being on the host -/
theorem init_returning (mode : Bool) (h : Host V) (hh : HostSide mode h) (hp : h.present = true) (p : Comp.Peer V)
    (ht : p.token = false) (hd : p.dirty = false) (hq : p.queue = []) :
    Inv mode ({ host := h, j := { present := true, count := 1, p := p } } : State V) := by
  refine ⟨⟨fun hpr => by simp at hpr, by simp [ht, hd], hq, rfl, rfl, fun _ => ⟨rfl, rfl, rfl⟩,
    fun hpr => by simp [hp] at hpr⟩, hh, ?_⟩
  intro hsn
  cases hsn

end Snap
end BevySync
