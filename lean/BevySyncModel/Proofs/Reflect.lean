import BevySyncModel.Codec.Reflect
import BevySyncModel.Proofs.Wire
namespace BevySync
namespace Codec
open Wire

theorem binToReflect_reflectToBin (reg : Registry) (path : List UInt8) (t : Ty) (v : Val)
    (hp : wt .str (.str path) = true) (hr : reg.find path = Option.some t) (hv : wt t v = true) :
    binToReflect reg (reflectToBin path v) = Option.some (path, v) := by
  unfold binToReflect reflectToBin
  have h1 : (1 : Nat) < 256 ^ 8 := by decide
  rw [readUInt_leBytes 8 1 _ h1]
  simp only [beq_self_eq_true, if_true]
  rw [dec_enc .str (.str path) _ hp]
  simp only [hr]
  have := dec_enc t v [] hv
  rw [List.append_nil] at this
  simp only [this]

/-- re-encoding what was decoded gives the same bytes -/
theorem reflect_reencode (reg : Registry) (path : List UInt8) (t : Ty) (v : Val)
    (hp : wt .str (.str path) = true) (hr : reg.find path = Option.some t) (hv : wt t v = true) :
    ∃ p' v', binToReflect reg (reflectToBin path v) = Option.some (p', v') ∧
      reflectToBin p' v' = reflectToBin path v :=
  ⟨path, v, binToReflect_reflectToBin reg path t v hp hr hv, rfl⟩

end Codec
end BevySync
