import BevySyncModel.Proofs.Ent
/-! Despawns (C01): once every connected peer holds the replica and nothing is in flight, any peers may despawn it at
any time, in any number, crossing each other, clients may leave — every schedule ends with all connected peers in
agreement: as soon as the host or one connected client has lost the entity, everybody has. -/
namespace BevySync
namespace Ent

def allDelete (l : List M) : Prop := ∀ m ∈ l, m = M.delete

theorem allDelete_append {a b : List M} (ha : allDelete a) (hb : allDelete b) : allDelete (a ++ b) := by
  intro m hm
  rcases List.mem_append.mp hm with h | h
  · exact ha m h
  · exact hb m h

theorem allDelete_take {l : List M} (n : Nat) (h : allDelete l) : allDelete (l.take n) :=
  fun m hm => h m (List.mem_of_mem_take hm)

theorem allDelete_drop {l : List M} (n : Nat) (h : allDelete l) : allDelete (l.drop n) :=
  fun m hm => h m (List.mem_of_mem_drop hm)

/-- a peer that holds at most one replica, tracked while it holds it, with no mark pending -/
def PeerOk (p : Peer) : Prop := p.marked = false ∧ p.count ≤ 1 ∧ (p.tracked = false → p.count = 0)

theorem clientRecv_delete_ok (p : Peer) (h : PeerOk p) :
    PeerOk (clientRecv p .delete) ∧ (clientRecv p .delete).count = 0 ∧ (clientRecv p .delete).tracked = (p.tracked && p.count == 0) := by
  obtain ⟨h1, h2, h3⟩ := h
  unfold clientRecv
  by_cases ht : p.tracked = true
  · by_cases hc : p.count > 0
    · have : p.count = 1 := by omega
      simp [ht, hc, PeerOk, h1, this]
    · have : p.count = 0 := by omega
      simp [ht, this, PeerOk, h1]
  · have ht' : p.tracked = false := by simpa using ht
    have := h3 ht'
    simp [ht', this, PeerOk, h1]

theorem hostRecv_delete_ok (p : Peer) (h : PeerOk p) :
    PeerOk (hostRecv p .delete).1 ∧ (hostRecv p .delete).1.count = 0 ∧ (hostRecv p .delete).2 = .delete ∧
    (hostRecv p .delete).1.tracked = (p.tracked && p.count == 0) := by
  obtain ⟨h1, h2, h3⟩ := h
  unfold hostRecv
  by_cases ht : p.tracked = true
  · by_cases hc : p.count > 0
    · have : p.count = 1 := by omega
      simp [ht, hc, PeerOk, h1, this]
    · have : p.count = 0 := by omega
      simp [ht, this, PeerOk, h1]
  · have ht' : p.tracked = false := by simpa using ht
    have := h3 ht'
    simp [ht', this, PeerOk, h1]

/-- a client handles a batch of deletes: as one delete, if there is any -/
theorem fold_deletes (p : Peer) (l : List M) (hl : allDelete l) :
    l.foldl clientRecv p = if l = [] then p else clientRecv p .delete := by
  induction l generalizing p with
  | nil => rfl
  | cons m l ih =>
    have hm : m = .delete := hl m (by simp)
    subst hm
    simp only [List.foldl_cons, List.cons_ne_nil, if_false]
    rw [ih _ (fun x hx => hl x (by simp [hx]))]
    split
    · rfl
    · exact clientRecv_delete_idem p

/-- the host's handling of one message of client `i` (the body of `pollH`'s fold) -/
def hostOne (i : Nat) (s : State) (m : M) : State :=
  let (h', r) := hostRecv s.host m
  { s with host := h', clients := relay i r s.clients,
           sent := s.sent + (s.clients.filter (fun c => c.connected && c.id != i)).length }

theorem step_pollH (s : State) (i n : Nat) :
    step s (.pollH i n) = match findClient i s.clients with
      | none => s
      | some c => (c.up.take n).foldl (hostOne i)
          { s with clients := onClient i (fun c => { c with up := c.up.drop n }) s.clients } := rfl

/-- `k` deletes relayed to everybody connected but `i` -/
def relayed (i k : Nat) (c : Client) : Client :=
  if c.connected && c.id != i then { c with down := c.down ++ List.replicate k M.delete } else c

theorem hostFold_deletes (i : Nat) (l : List M) (hl : allDelete l) (t : State) :
    (l.foldl (hostOne i) t).host = (if l = [] then t.host else (hostRecv t.host .delete).1) ∧
    (l.foldl (hostOne i) t).clients = t.clients.map (relayed i l.length) ∧
    (l.foldl (hostOne i) t).despawns = t.despawns := by
  induction l generalizing t with
  | nil =>
    refine ⟨rfl, ?_, rfl⟩
    simp only [List.foldl_nil, List.length_nil]
    conv => lhs; rw [← List.map_id t.clients]
    apply List.map_congr_left
    intro c _
    unfold relayed
    simp only [id, List.replicate_zero, List.append_nil]
    split <;> rfl
  | cons m l ih =>
    have hm : m = .delete := hl m (by simp)
    subst hm
    obtain ⟨i1, i2, i3⟩ := ih (fun x hx => hl x (by simp [hx])) (hostOne i t .delete)
    simp only [List.foldl_cons, List.cons_ne_nil, if_false, List.length_cons]
    refine ⟨?_, ?_, ?_⟩
    · rw [i1]
      have hh : (hostOne i t .delete).host = (hostRecv t.host .delete).1 := rfl
      split
      · exact hh
      · rw [hh]; exact hostRecv_delete_idem t.host
    · rw [i2]
      have hc : (hostOne i t .delete).clients = relay i .delete t.clients := rfl
      rw [hc]
      unfold relay
      rw [List.map_map]
      apply List.map_congr_left
      intro c _
      simp only [Function.comp, relayed]
      by_cases hcond : (c.connected && c.id != i) = true
      · simp only [hcond, if_true, List.replicate_succ, List.append_assoc, List.singleton_append]
      · simp only [hcond, if_false, Bool.false_eq_true]
    · rw [i3]; rfl

theorem drop_of_take_nil {α : Type} (n : Nat) (l : List α) (h : l.take n = []) : l.drop n = l := by
  cases n with
  | zero => rfl
  | succ n =>
    cases l with
    | nil => rfl
    | cons a l => simp at h

theorem mem_replicate_delete (k : Nat) (hk : k ≠ 0) : M.delete ∈ List.replicate k M.delete := by
  cases k with
  | zero => exact absurd rfl hk
  | succ k => simp [List.replicate_succ]

theorem allDelete_replicate (k : Nat) : allDelete (List.replicate k M.delete) :=
  fun m hm => (List.mem_replicate.mp hm).2

/-- what a connected client satisfies relative to the host -/
def COk (h : Peer) (c : Client) : Prop :=
  PeerOk c.p ∧ allDelete c.down ∧
  (h.tracked = false → M.delete ∈ c.down ∨ c.p.count = 0) ∧
  (c.p.tracked = false → M.delete ∈ c.up ∨ h.count = 0) ∧
  (M.delete ∈ c.up → c.p.count = 0) ∧
  (M.delete ∈ c.down → h.count = 0)

def DelInv (s : State) : Prop :=
  (s.clients.map (·.id)).Nodup ∧ PeerOk s.host ∧ (∀ c ∈ s.clients, allDelete c.up) ∧
  ∀ c ∈ s.clients, c.connected = true → COk s.host c

/-- the replica exists; nobody marks anything new under this uuid (it is drawn once) -/
def NoMark : Act → Prop
  | .markH | .markC _ => False
  | _ => True

theorem despawn_ok (p : Peer) (h : PeerOk p) :
    PeerOk (despawn p) ∧ (despawn p).tracked = p.tracked ∧ (despawn p).count ≤ p.count := by
  obtain ⟨h1, h2, h3⟩ := h
  unfold despawn
  split
  · refine ⟨⟨h1, by simp only; omega, fun ht => ?_⟩, rfl, by simp only; omega⟩
    have := h3 ht
    simp only; omega
  · exact ⟨⟨h1, h2, h3⟩, rfl, Nat.le_refl _⟩

theorem delinv_step (s : State) (a : Act) (hi : DelInv s) (ha : NoMark a) : DelInv (step s a) := by
  obtain ⟨hn, hh, hup, hc⟩ := hi
  refine ⟨by rw [ids_step]; exact hn, ?_⟩
  cases a with
  | markH => exact absurd ha (by simp [NoMark])
  | markC i => exact absurd ha (by simp [NoMark])
  | createdH =>
    have : step s .createdH = s := by simp [step, hh.1]
    rw [this]; exact ⟨hh, hup, hc⟩
  | despawnH =>
    obtain ⟨d1, d2, d3⟩ := despawn_ok s.host hh
    simp only [step]
    refine ⟨d1, hup, fun c hcm hcon => ?_⟩
    obtain ⟨c1, c2, c3, c4, c5, c6⟩ := hc c hcm hcon
    refine ⟨c1, c2, fun ht => c3 (by rw [← d2]; exact ht), fun ht => ?_, c5, fun hm => ?_⟩
    · rcases c4 ht with h | h
      · exact Or.inl h
      · right; omega
    · have := c6 hm; omega
  | removedH =>
    simp only [step]
    split
    · rename_i hnot
      have hcount : s.host.count = 0 := by
        simp only [noticed, Bool.and_eq_true, beq_iff_eq] at hnot; exact hnot.2
      refine ⟨⟨hh.1, hh.2.1, fun _ => hcount⟩, ?_, ?_⟩
      · intro c' hc'
        obtain ⟨c, hcm, rfl⟩ := List.mem_map.mp hc'
        split
        · exact hup c hcm
        · exact hup c hcm
      · intro c' hc' hcon'
        obtain ⟨c, hcm, rfl⟩ := List.mem_map.mp hc'
        by_cases hcon : c.connected = true
        · simp only [broadcast, hcon, if_true] at hcon' ⊢
          obtain ⟨c1, c2, c3, c4, c5, c6⟩ := hc c hcm hcon
          refine ⟨c1, allDelete_append c2 (by intro m hm; simpa using hm), fun _ => Or.inl (by simp),
            fun _ => Or.inr hcount, c5, fun _ => hcount⟩
        · simp only [hcon, if_false, Bool.false_eq_true] at hcon'
    · exact ⟨hh, hup, hc⟩
  | pollH i n =>
    rw [step_pollH]
    cases hf : findClient i s.clients with
    | none => exact ⟨hh, hup, hc⟩
    | some ci =>
      obtain ⟨hcim, hciid⟩ := findClient_spec hf
      simp only
      have hl : allDelete (ci.up.take n) := allDelete_take n (hup ci hcim)
      obtain ⟨f1, f2, _⟩ := hostFold_deletes i (ci.up.take n) hl
        { s with clients := onClient i (fun c => { c with up := c.up.drop n }) s.clients }
      obtain ⟨r1, r2, r3, r4⟩ := hostRecv_delete_ok s.host hh
      have hhost' : PeerOk (if ci.up.take n = [] then s.host else (hostRecv s.host .delete).1) := by
        split
        · exact hh
        · exact r1
      refine ⟨by rw [f1]; exact hhost', ?_, ?_⟩
      · intro c' hc'
        rw [f2] at hc'
        obtain ⟨c1, hc1, rfl⟩ := List.mem_map.mp hc'
        obtain ⟨c, hcm, rfl⟩ := mem_onClient hc1
        have : (relayed i (ci.up.take n).length (if c.id = i then { c with up := c.up.drop n } else c)).up
            = (if c.id = i then c.up.drop n else c.up) := by
          unfold relayed; split <;> split <;> rfl
        rw [this]
        split
        · exact allDelete_drop n (hup c hcm)
        · exact hup c hcm
      · intro c' hc' hcon'
        rw [f2] at hc'
        obtain ⟨c1, hc1, rfl⟩ := List.mem_map.mp hc'
        obtain ⟨c, hcm, rfl⟩ := mem_onClient hc1
        have hconeq : (relayed i (ci.up.take n).length (if c.id = i then { c with up := c.up.drop n } else c)).connected = c.connected := by
          unfold relayed; split <;> split <;> rfl
        have hcon : c.connected = true := by rw [← hconeq]; exact hcon'
        obtain ⟨c1', c2, c3, c4, c5, c6⟩ := hc c hcm hcon
        rw [f1]
        by_cases hid : c.id = i
        · -- the sender itself
          have hceq : c = ci := nodup_unique hn hcm hcim (by rw [hid, hciid])
          have hrel : relayed i (ci.up.take n).length (if c.id = i then { c with up := c.up.drop n } else c)
              = { c with up := c.up.drop n } := by
            rw [if_pos hid]; unfold relayed; simp [hid]
          rw [hrel]
          by_cases hnil : ci.up.take n = []
          · rw [if_pos hnil]
            have hd : c.up.drop n = c.up := by rw [hceq]; exact drop_of_take_nil n ci.up hnil
            simp only [hd]
            exact ⟨c1', c2, c3, c4, c5, c6⟩
          · rw [if_neg hnil]
            have hdel : M.delete ∈ c.up := by
              rw [hceq]
              cases hlst : ci.up.take n with
              | nil => exact absurd hlst hnil
              | cons m rest =>
                have hm : m = .delete := hl m (by simp [hlst])
                have : m ∈ ci.up := List.mem_of_mem_take (by rw [hlst]; simp)
                rw [hm] at this; exact this
            have hc0 := c5 hdel
            exact ⟨c1', c2, fun _ => Or.inr hc0, fun _ => Or.inr r2,
              fun hm => c5 (List.mem_of_mem_drop hm), fun _ => r2⟩
        · have hrel : relayed i (ci.up.take n).length (if c.id = i then { c with up := c.up.drop n } else c)
              = { c with down := c.down ++ List.replicate (ci.up.take n).length M.delete } := by
            rw [if_neg hid]; unfold relayed; simp [hcon, hid]
          rw [hrel]
          by_cases hnil : ci.up.take n = []
          · rw [if_pos hnil]
            simp only [hnil, List.length_nil, List.replicate_zero, List.append_nil]
            exact ⟨c1', c2, c3, c4, c5, c6⟩
          · rw [if_neg hnil]
            have hk : (ci.up.take n).length ≠ 0 := by
              intro h; exact hnil (List.length_eq_zero_iff.mp h)
            refine ⟨c1', allDelete_append c2 (allDelete_replicate _),
              fun _ => Or.inl (List.mem_append_right _ (mem_replicate_delete _ hk)),
              fun _ => Or.inr r2, c5, fun _ => r2⟩
  | despawnC i =>
    simp only [step]
    refine ⟨hh, ?_, ?_⟩
    · apply forall_onClient
      · intro c hcm _; exact hup c hcm
      · intro c hcm _; exact hup c hcm
    · intro c' hc' hcon'
      obtain ⟨c, hcm, rfl⟩ := mem_onClient hc'
      by_cases hid : c.id = i
      · rw [if_pos hid] at hcon' ⊢
        have hcon : c.connected = true := hcon'
        obtain ⟨c1, c2, c3, c4, c5, c6⟩ := hc c hcm hcon
        obtain ⟨d1, d2, d3⟩ := despawn_ok c.p c1
        refine ⟨d1, c2, fun ht => ?_, fun ht => c4 (by rw [← d2]; exact ht), fun hm => ?_, c6⟩
        · rcases c3 ht with h | h
          · exact Or.inl h
          · right; show (despawn c.p).count = 0; omega
        · have := c5 hm; show (despawn c.p).count = 0; omega
      · rw [if_neg hid] at hcon' ⊢
        exact hc c hcm hcon'
  | removedC i =>
    simp only [step]
    refine ⟨hh, ?_, ?_⟩
    · apply forall_onClient
      · intro c hcm _; exact hup c hcm
      · intro c hcm _
        split
        · exact allDelete_append (hup c hcm) (by intro m hm; simpa using hm)
        · exact hup c hcm
    · intro c' hc' hcon'
      obtain ⟨c, hcm, rfl⟩ := mem_onClient hc'
      by_cases hid : c.id = i
      · rw [if_pos hid] at hcon' ⊢
        by_cases hcond : (c.connected && noticed c.p) = true
        · rw [if_pos hcond] at hcon' ⊢
          have hcon : c.connected = true := by simp only [Bool.and_eq_true] at hcond; exact hcond.1
          have hcount : c.p.count = 0 := by
            simp only [Bool.and_eq_true, noticed, beq_iff_eq] at hcond; exact hcond.2.2
          obtain ⟨c1, c2, c3, c4, c5, c6⟩ := hc c hcm hcon
          exact ⟨⟨c1.1, c1.2.1, fun _ => hcount⟩, c2, c3, fun _ => Or.inl (by simp), fun _ => hcount, c6⟩
        · rw [if_neg hcond] at hcon' ⊢
          exact hc c hcm hcon'
      · rw [if_neg hid] at hcon' ⊢
        exact hc c hcm hcon'
  | createdC i =>
    simp only [step]
    have hsame : ∀ c ∈ s.clients, (if c.connected && c.p.marked then { c with p := created c.p, up := c.up ++ [M.spawn] } else c) = c := by
      intro c hcm
      by_cases hcon : c.connected = true
      · have := (hc c hcm hcon).1.1
        simp [hcon, this]
      · simp [hcon]
    refine ⟨hh, ?_, ?_⟩
    · apply forall_onClient
      · intro c hcm _; exact hup c hcm
      · intro c hcm _; rw [hsame c hcm]; exact hup c hcm
    · intro c' hc' hcon'
      obtain ⟨c, hcm, rfl⟩ := mem_onClient hc'
      by_cases hid : c.id = i
      · rw [if_pos hid] at hcon' ⊢
        rw [hsame c hcm] at hcon' ⊢
        exact hc c hcm hcon'
      · rw [if_neg hid] at hcon' ⊢
        exact hc c hcm hcon'
  | pollC i n =>
    simp only [step]
    refine ⟨hh, ?_, ?_⟩
    · apply forall_onClient
      · intro c hcm _; exact hup c hcm
      · intro c hcm _
        split
        · exact hup c hcm
        · exact hup c hcm
    · intro c' hc' hcon'
      obtain ⟨c, hcm, rfl⟩ := mem_onClient hc'
      by_cases hid : c.id = i
      · rw [if_pos hid] at hcon' ⊢
        by_cases hcon : c.connected = true
        · rw [if_pos hcon] at hcon' ⊢
          obtain ⟨c1, c2, c3, c4, c5, c6⟩ := hc c hcm hcon
          have hl : allDelete (c.down.take n) := allDelete_take n c2
          have hfold := fold_deletes c.p (c.down.take n) hl
          obtain ⟨k1, k2, k3⟩ := clientRecv_delete_ok c.p c1
          by_cases hnil : c.down.take n = []
          · have hp : (c.down.take n).foldl clientRecv c.p = c.p := by rw [hfold, if_pos hnil]
            have hd := drop_of_take_nil n c.down hnil
            simp only [hp, hd]
            exact ⟨c1, c2, c3, c4, c5, c6⟩
          · have hp : (c.down.take n).foldl clientRecv c.p = clientRecv c.p .delete := by rw [hfold, if_neg hnil]
            have hdel : M.delete ∈ c.down := by
              cases hlst : c.down.take n with
              | nil => exact absurd hlst hnil
              | cons m rest =>
                have hm : m = .delete := hl m (by simp [hlst])
                have : m ∈ c.down := List.mem_of_mem_take (by rw [hlst]; simp)
                rw [hm] at this; exact this
            simp only [hp]
            exact ⟨k1, allDelete_drop n c2, fun _ => Or.inr k2, fun _ => Or.inr (c6 hdel), fun _ => k2,
              fun hm => c6 (List.mem_of_mem_drop hm)⟩
        · rw [if_neg hcon] at hcon' ⊢
          exact absurd hcon' hcon
      · rw [if_neg hid] at hcon' ⊢
        exact hc c hcm hcon'
  | leave i =>
    simp only [step]
    refine ⟨hh, ?_, ?_⟩
    · apply forall_onClient
      · intro c hcm _; exact hup c hcm
      · intro c hcm _; exact hup c hcm
    · intro c' hc' hcon'
      obtain ⟨c, hcm, rfl⟩ := mem_onClient hc'
      by_cases hid : c.id = i
      · rw [if_pos hid] at hcon'
        simp at hcon'
      · rw [if_neg hid] at hcon' ⊢
        exact hc c hcm hcon'

theorem delinv_run (s : State) (as : List Act) (hi : DelInv s) (ha : ∀ a ∈ as, NoMark a) : DelInv (run s as) := by
  induction as generalizing s with
  | nil => exact hi
  | cons a as ih => exact ih _ (delinv_step s a hi (ha a (by simp))) (fun b hb => ha b (by simp [hb]))

/-- everybody connected holds the replica, nothing is in flight -/
def Live (s : State) : Prop :=
  (s.clients.map (·.id)).Nodup ∧ s.host.marked = false ∧ s.host.count = 1 ∧ s.host.tracked = true ∧
  (∀ c ∈ s.clients, c.up = []) ∧
  ∀ c ∈ s.clients, c.connected = true → c.p.marked = false ∧ c.p.count = 1 ∧ c.p.tracked = true ∧ c.down = []

theorem live_delinv (s : State) (h : Live s) : DelInv s := by
  obtain ⟨hn, h1, h2, h3, h4, h5⟩ := h
  have e0 : ∀ (l : List M), l = [] → allDelete l := by intro l hl m hm; rw [hl] at hm; cases hm
  refine ⟨hn, ⟨h1, (by omega), (fun ht => by rw [h3] at ht; cases ht)⟩, (fun c hcm => e0 _ (h4 c hcm)), ?_⟩
  intro c hcm hcon
  obtain ⟨c1, c2, c3, c4⟩ := h5 c hcm hcon
  exact ⟨⟨c1, (by omega), (fun ht => by rw [c3] at ht; cases ht)⟩, e0 _ c4,
    (fun ht => by rw [h3] at ht; cases ht), (fun ht => by rw [c3] at ht; cases ht),
    (fun hm => by rw [h4 c hcm] at hm; cases hm), (fun hm => by rw [c4] at hm; cases hm)⟩

/-- **agreement at quiescence**: as soon as the host or one connected client has lost the replica, every connected peer
has lost it, nobody holds more than one, and nothing is tracked any more on a peer that lost it -/
theorem del_agreement (s : State) (hi : DelInv s) (hq : Quiescent s) :
    (s.host.count = 0 → ∀ c ∈ s.clients, c.connected = true → c.p.count = 0) ∧
    (∀ c ∈ s.clients, c.connected = true → c.p.count = 0 →
        s.host.count = 0 ∧ ∀ c' ∈ s.clients, c'.connected = true → c'.p.count = 0) ∧
    s.host.count ≤ 1 ∧ (∀ c ∈ s.clients, c.connected = true → c.p.count ≤ 1) := by
  obtain ⟨_, hh, _, hc⟩ := hi
  obtain ⟨q1, q2, qc⟩ := hq
  have hostdead : s.host.count = 0 → ∀ c ∈ s.clients, c.connected = true → c.p.count = 0 := by
    intro h0 c hcm hcon
    have hut : s.host.tracked = false := by
      cases ht : s.host.tracked with
      | false => rfl
      | true => simp [noticed, ht, h0] at q2
    obtain ⟨_, _, c3, _, _, _⟩ := hc c hcm hcon
    obtain ⟨_, _, _, qd⟩ := qc c hcm hcon
    rcases c3 hut with h | h
    · rw [qd] at h; cases h
    · exact h
  refine ⟨hostdead, fun c hcm hcon h0 => ?_, hh.2.1, fun c hcm hcon => (hc c hcm hcon).1.2.1⟩
  obtain ⟨_, _, _, c4, _, _⟩ := hc c hcm hcon
  obtain ⟨_, qn, qu, _⟩ := qc c hcm hcon
  have hut : c.p.tracked = false := by
    cases ht : c.p.tracked with
    | false => rfl
    | true => simp [noticed, ht, h0] at qn
  have hhost : s.host.count = 0 := by
    rcases c4 hut with h | h
    · rw [qu] at h; cases h
    · exact h
  exact ⟨hhost, hostdead hhost⟩

end Ent
end BevySync
