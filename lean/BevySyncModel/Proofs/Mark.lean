import BevySyncModel.Slice.Mark
namespace BevySync
namespace Mark

theorem run_succ (legacy before : Bool) (s : State) (n : Nat) :
    run legacy before s (n + 1) = frame legacy before (run legacy before s n) := by
  simp [run, List.range_succ, List.foldl_append]

/-- after two frames the value carried at mark time has been announced exactly once, whichever side of the
sync point `sync_detect<T>` runs on, and the state is the steady one -/
theorem two_frames (before : Bool) :
    run false before {} 2 = { created := true, synced := true, changedT := false, addedS := false, announced := 1 } := by
  cases before <;> decide

/-- the steady state is a fixed point of further frames: nothing is announced again -/
theorem steady (before : Bool) (a : Nat) :
    frame false before { created := true, synced := true, changedT := false, addedS := false, announced := a }
      = { created := true, synced := true, changedT := false, addedS := false, announced := a } := by
  cases before <;> simp [frame, detect, syncPoint]

theorem announced_once (before : Bool) (n : Nat) (hn : 2 ≤ n) : (run false before {} n).announced = 1 := by
  have h : ∀ k, run false before {} (2 + k) =
      { created := true, synced := true, changedT := false, addedS := false, announced := 1 } := by
    intro k
    induction k with
    | zero => exact two_frames before
    | succ k ih => rw [← Nat.add_assoc, run_succ, ih, steady]
  obtain ⟨k, rfl⟩ : ∃ k, n = 2 + k := ⟨n - 2, by omega⟩
  rw [h k]

/-- the same for an entity marked before the peer was connected: `sync_detect<T>` has been running (and consuming
`Changed<T>`) for any number of frames before `entity_created_*` gets to process the mark -/
theorem announced_once_after_idle (before : Bool) (k n : Nat) (hn : 2 ≤ n) :
    (run false before (idle false {} k) n).announced = 1 := by
  have hidle : idle false {} k = {} ∨ idle false {} k = { changedT := false } := by
    induction k with
    | zero => left; rfl
    | succ k ih =>
      have e : idle false {} (k + 1) = detect false (idle false {} k) := by
        simp [idle, List.range_succ, List.foldl_append]
      rw [e]
      rcases ih with ih | ih <;> rw [ih] <;> right <;> rfl
  rcases hidle with e | e
  · rw [e]; exact announced_once before n hn
  · rw [e]
    have h2 : run false before { changedT := false } 2 =
        { created := true, synced := true, changedT := false, addedS := false, announced := 1 } := by
      cases before <;> decide
    have h : ∀ j, run false before { changedT := false } (2 + j) =
        { created := true, synced := true, changedT := false, addedS := false, announced := 1 } := by
      intro j
      induction j with
      | zero => exact h2
      | succ j ih => rw [← Nat.add_assoc, run_succ, ih, steady]
    obtain ⟨j, rfl⟩ : ∃ j, n = 2 + j := ⟨n - 2, by omega⟩
    rw [h j]

/-- a later write is announced by the next frame, once -/
theorem write_announced (before : Bool) (a : Nat) :
    (frame false before (write { created := true, synced := true, changedT := false, addedS := false, announced := a })).announced = a + 1 := by
  cases before <;> simp [frame, detect, syncPoint, write]

/-- the filter before its repair: when `sync_detect<T>` runs ahead of the sync point the value is never announced -/
theorem legacy_never (n : Nat) : (run true true {} n).announced = 0 := by
  have h : ∀ k, run true true {} (1 + k) =
      { created := true, synced := true, changedT := false, addedS := true, announced := 0 } ∨
      run true true {} (1 + k) =
      { created := true, synced := true, changedT := false, addedS := false, announced := 0 } := by
    intro k
    induction k with
    | zero => left; decide
    | succ k ih =>
      rw [← Nat.add_assoc, run_succ]
      rcases ih with ih | ih <;> rw [ih] <;> right <;> simp [frame, detect, syncPoint]
  cases n with
  | zero => rfl
  | succ n =>
    have := h n
    rw [Nat.add_comm] at this
    rcases this with e | e <;> rw [e]

end Mark
end BevySync
