/-! Sums of a per-client weight over a client list, and how the `onClient` / `findClient` idiom of the slices moves
them.  Generic in the client type: every slice's `onClient i f cs` is `on idf i f cs` and its `findClient i cs` is
`cs.find? (fun c => idf c = i)` by `rfl`. -/
namespace BevySync
namespace SumPot

variable {α : Type}

def on (idf : α → Nat) (i : Nat) (f : α → α) (cs : List α) : List α := cs.map (fun c => if idf c = i then f c else c)

def total (w : α → Nat) (cs : List α) : Nat := (cs.map w).sum

theorem total_map_le (w : α → Nat) (g : α → α) (cs : List α) (h : ∀ c ∈ cs, w (g c) ≤ w c) :
    total w (cs.map g) ≤ total w cs := by
  induction cs with
  | nil => exact Nat.le_refl _
  | cons c cs ih =>
    have h1 := h c (by simp)
    have h2 := ih (fun x hx => h x (by simp [hx]))
    simp only [total, List.map_cons, List.sum_cons] at h2 ⊢
    omega

theorem total_map_eq (w : α → Nat) (g : α → α) (cs : List α) (h : ∀ c ∈ cs, w (g c) = w c) :
    total w (cs.map g) = total w cs := by
  unfold total
  rw [List.map_map]
  congr 1
  apply List.map_congr_left
  intro c hc
  exact h c hc

theorem total_on_le (w : α → Nat) (idf : α → Nat) (i : Nat) (f : α → α) (cs : List α) (h : ∀ c ∈ cs, w (f c) ≤ w c) :
    total w (on idf i f cs) ≤ total w cs := by
  unfold on
  apply total_map_le
  intro c hc
  split
  · exact h c hc
  · exact Nat.le_refl _

theorem on_absent (idf : α → Nat) (i : Nat) (f : α → α) (cs : List α) (h : ∀ c ∈ cs, idf c ≠ i) : on idf i f cs = cs := by
  unfold on
  conv => rhs; rw [← List.map_id cs]
  apply List.map_congr_left
  intro c hc
  simp only [h c hc, if_false, id]

theorem length_on (idf : α → Nat) (i : Nat) (f : α → α) (cs : List α) : (on idf i f cs).length = cs.length := by
  simp [on]

/-- with distinct ids at most one client is touched -/
theorem total_on_add (w : α → Nat) (idf : α → Nat) (i d : Nat) (f : α → α) (cs : List α) (hn : (cs.map idf).Nodup)
    (h : ∀ c ∈ cs, w (f c) ≤ w c + d) : total w (on idf i f cs) ≤ total w cs + d := by
  induction cs with
  | nil => exact Nat.le_add_right _ _
  | cons c cs ih =>
    simp only [List.map_cons, List.nodup_cons, List.mem_map, not_exists, not_and] at hn
    obtain ⟨hnot, hn'⟩ := hn
    by_cases hc : idf c = i
    · have habs : on idf i f cs = cs := on_absent idf i f cs (fun x hx hxi => hnot x hx (by rw [hxi, hc]))
      have h1 := h c (by simp)
      have e : on idf i f (c :: cs) = f c :: on idf i f cs := by simp [on, hc]
      rw [e, habs]
      simp only [total, List.map_cons, List.sum_cons]
      omega
    · have h2 := ih hn' (fun x hx => h x (by simp [hx]))
      have e : on idf i f (c :: cs) = c :: on idf i f cs := by simp [on, hc]
      rw [e]
      simp only [total, List.map_cons, List.sum_cons] at h2 ⊢
      omega

/-- the client `find?` returns pays `d`; nobody else gains -/
theorem total_on_pay (w : α → Nat) (idf : α → Nat) (i d : Nat) (f : α → α) (cs : List α) (c0 : α)
    (hf : cs.find? (fun c => idf c = i) = some c0) (h : ∀ c ∈ cs, w (f c) ≤ w c) (h0 : w (f c0) + d ≤ w c0) :
    total w (on idf i f cs) + d ≤ total w cs := by
  induction cs with
  | nil => simp at hf
  | cons c cs ih =>
    by_cases hc : idf c = i
    · have hc0 : c0 = c := by
        simp only [List.find?_cons, hc, decide_true] at hf
        exact (Option.some.inj hf).symm
      subst hc0
      have hrest := total_on_le w idf i f cs (fun x hx => h x (by simp [hx]))
      have e : on idf i f (c0 :: cs) = f c0 :: on idf i f cs := by simp [on, hc]
      rw [e]
      simp only [total, List.map_cons, List.sum_cons] at hrest ⊢
      omega
    · have hf' : cs.find? (fun c => idf c = i) = some c0 := by
        simpa only [List.find?_cons, hc, decide_false] using hf
      have h2 := ih hf' (fun x hx => h x (by simp [hx]))
      have e : on idf i f (c :: cs) = c :: on idf i f cs := by simp [on, hc]
      rw [e]
      simp only [total, List.map_cons, List.sum_cons] at h2 ⊢
      omega

/-- with distinct ids: the client `find?` returns pays `d`, the others are not touched at all -/
theorem total_on_pay_nodup (w : α → Nat) (idf : α → Nat) (i d : Nat) (f : α → α) (cs : List α) (c0 : α)
    (hn : (cs.map idf).Nodup) (hf : cs.find? (fun c => idf c = i) = some c0) (h0 : w (f c0) + d ≤ w c0) :
    total w (on idf i f cs) + d ≤ total w cs := by
  induction cs with
  | nil => simp at hf
  | cons c cs ih =>
    simp only [List.map_cons, List.nodup_cons, List.mem_map, not_exists, not_and] at hn
    obtain ⟨hnot, hn'⟩ := hn
    by_cases hc : idf c = i
    · have hc0 : c0 = c := by
        simp only [List.find?_cons, hc, decide_true] at hf
        exact (Option.some.inj hf).symm
      subst hc0
      have habs : on idf i f cs = cs := on_absent idf i f cs (fun x hx hxi => hnot x hx (by rw [hxi, hc]))
      have e : on idf i f (c0 :: cs) = f c0 :: on idf i f cs := by simp [on, hc]
      rw [e, habs]
      simp only [total, List.map_cons, List.sum_cons]
      omega
    · have hf' : cs.find? (fun c => idf c = i) = some c0 := by
        simpa only [List.find?_cons, hc, decide_false] using hf
      have h2 := ih hn' hf'
      have e : on idf i f (c :: cs) = c :: on idf i f cs := by simp [on, hc]
      rw [e]
      simp only [total, List.map_cons, List.sum_cons] at h2 ⊢
      omega

/-- a map that touches everybody: with distinct ids the client `find?` returns pays `d`, the others keep their weight -/
theorem total_map_pay_nodup (w : α → Nat) (idf : α → Nat) (i d : Nat) (g : α → α) (cs : List α) (c0 : α)
    (hn : (cs.map idf).Nodup) (hf : cs.find? (fun c => idf c = i) = some c0)
    (hsame : ∀ c ∈ cs, idf c ≠ i → w (g c) = w c) (h0 : w (g c0) + d ≤ w c0) :
    total w (cs.map g) + d ≤ total w cs := by
  induction cs with
  | nil => simp at hf
  | cons c cs ih =>
    simp only [List.map_cons, List.nodup_cons, List.mem_map, not_exists, not_and] at hn
    obtain ⟨hnot, hn'⟩ := hn
    by_cases hc : idf c = i
    · have hc0 : c0 = c := by
        simp only [List.find?_cons, hc, decide_true] at hf
        exact (Option.some.inj hf).symm
      subst hc0
      have hrest : total w (cs.map g) = total w cs :=
        total_map_eq w g cs (fun x hx => hsame x (by simp [hx]) (fun hxi => hnot x hx (by rw [hxi, hc])))
      simp only [total, List.map_cons, List.sum_cons] at hrest ⊢
      omega
    · have hf' : cs.find? (fun c => idf c = i) = some c0 := by
        simpa only [List.find?_cons, hc, decide_false] using hf
      have h2 := ih hn' hf' (fun x hx => hsame x (by simp [hx]))
      have h1 := hsame c (by simp) hc
      simp only [total, List.map_cons, List.sum_cons] at h2 ⊢
      omega

theorem find_none_absent (idf : α → Nat) {i : Nat} {cs : List α} (h : cs.find? (fun c => idf c = i) = none) :
    ∀ c ∈ cs, idf c ≠ i := by
  intro c hc hci
  have := List.find?_eq_none.mp h c hc
  simp [hci] at this

theorem total_zero (w : α → Nat) (cs : List α) (h : ∀ c ∈ cs, w c = 0) : total w cs = 0 := by
  induction cs with
  | nil => rfl
  | cons c cs ih =>
    have := ih (fun x hx => h x (by simp [hx]))
    simp only [total, List.map_cons, List.sum_cons] at this ⊢
    rw [this, h c (by simp)]

end SumPot
end BevySync
