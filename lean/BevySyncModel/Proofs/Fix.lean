import BevySyncModel.Slice.Fix
namespace BevySync
namespace Fix

/-- with the repaired fixes the queue only ever holds companion inserts -/
def OnlyCompanions (q : List Cmd) : Prop := ∀ c ∈ q, ∃ x, c = Cmd.insertCompanion x

theorem runSys_val (e : Ent) (i : Nat) :
    (step false e (.runSys i)).val = e.val ∧ (step false e (.runSys i)).changed = e.changed ∧
    (step false e (.runSys i)).has = e.has ∧ (step false e (.runSys i)).overwrites = e.overwrites := by
  simp only [step]
  cases sysAt i <;> simp

theorem runSys_queue_only (e : Ent) (i : Nat) (h : OnlyCompanions e.queue) :
    OnlyCompanions (step false e (.runSys i)).queue := by
  simp only [step]
  cases hs : sysAt i with
  | none => exact h
  | some s =>
    intro c hc
    simp only [Bool.false_and, Bool.false_eq_true, if_false, List.nil_append, List.mem_append] at hc
    rcases hc with hc | hc
    · exact h c hc
    · split at hc
      · obtain ⟨x, _, rfl⟩ := List.mem_map.mp hc; exact ⟨x, rfl⟩
      · cases hc

theorem fold_queue (q : List Cmd) (e : Ent) : (q.foldl applyCmd e).queue = e.queue := by
  induction q generalizing e with
  | nil => rfl
  | cons c q ih => simp only [List.foldl_cons]; rw [ih]; cases c <;> rfl

theorem fold_val (q : List Cmd) (e : Ent) (h : OnlyCompanions q) :
    (q.foldl applyCmd e).val = e.val ∧ (q.foldl applyCmd e).changed = e.changed := by
  induction q generalizing e with
  | nil => exact ⟨rfl, rfl⟩
  | cons c q ih =>
    obtain ⟨x, rfl⟩ := h c (by simp)
    simp only [List.foldl_cons]
    exact ih (applyCmd e (.insertCompanion x)) (fun c hc => h c (by simp [hc]))

/-- after the flush every queued companion is present, and companions present before stay present -/
theorem fold_has (q : List Cmd) (e : Ent) :
    (∀ c, Cmd.insertCompanion c ∈ q → (q.foldl applyCmd e).has c = true) ∧
    (∀ c, e.has c = true → (q.foldl applyCmd e).has c = true) := by
  induction q generalizing e with
  | nil => exact ⟨fun c h => (by cases h), fun c h => h⟩
  | cons x q ih =>
    simp only [List.foldl_cons]
    obtain ⟨i1, i2⟩ := ih (applyCmd e x)
    refine ⟨fun c hc => ?_, fun c hc => ?_⟩
    · rcases List.mem_cons.mp hc with rfl | hc
      · exact i2 c (by simp [applyCmd])
      · exact i1 c hc
    · apply i2
      cases x with
      | insertCompanion c' => simp only [applyCmd]; split <;> simp_all
      | reinsertValue k v => exact hc

/-- **the replicated value is never touched by the fix machinery** (nor is a change raised for it):
only `arrive` writes a kind's value -/
theorem fix_value_untouched (e : Ent) (as : List Act) (hq : OnlyCompanions e.queue)
    (hno : ∀ a ∈ as, ∀ k v, a ≠ .arrive k v) :
    (run false e as).val = e.val ∧ (run false e as).changed = e.changed ∧ OnlyCompanions (run false e as).queue := by
  induction as generalizing e with
  | nil => exact ⟨rfl, rfl, hq⟩
  | cons a as ih =>
    have hstep : (step false e a).val = e.val ∧ (step false e a).changed = e.changed ∧ OnlyCompanions (step false e a).queue := by
      cases a with
      | arrive k v => exact absurd rfl (hno _ (by simp) k v)
      | addCompanion c => exact ⟨rfl, rfl, hq⟩
      | runSys i => exact ⟨(runSys_val e i).1, (runSys_val e i).2.1, runSys_queue_only e i hq⟩
      | flush =>
        have := fold_val e.queue { e with queue := [] } hq
        refine ⟨this.1, this.2, ?_⟩
        simp only [step, fold_queue]
        intro c hc; cases hc
    obtain ⟨h1, h2, h3⟩ := hstep
    have := ih (step false e a) h3 (fun b hb => hno b (by simp [hb]))
    simp only [run, List.foldl_cons] at this ⊢
    exact ⟨this.1.trans h1, this.2.1.trans h2, this.2.2⟩

/-! ### every companion of an arrived kind is added within the frame, whatever the system order -/

/-- the systems run (no flush yet): the queue only grows, values / presence / other systems' flags unchanged -/
theorem runSys_mono (e : Ent) (j : Nat) :
    (∀ c ∈ e.queue, c ∈ (step false e (.runSys j)).queue) ∧
    (∀ i, i ≠ j → (step false e (.runSys j)).added i = e.added i) := by
  simp only [step]
  cases sysAt j with
  | none => exact ⟨fun c h => h, fun i _ => rfl⟩
  | some s => exact ⟨fun c h => List.mem_append_left _ h, fun i hi => by simp [hi]⟩

theorem runOrder_queues (order : List Nat) (e : Ent) (i : Nat) (s : Sys) (hs : sysAt i = some s)
    (hi : i ∈ order) (hadd : e.added i = true) (hval : (e.val s.kind).isSome = true)
    (habs : ∀ c ∈ s.without, e.has c = false) :
    ∀ c ∈ s.inserts, Cmd.insertCompanion c ∈ (run false e (order.map Act.runSys)).queue := by
  induction order generalizing e with
  | nil => cases hi
  | cons j order ih =>
    simp only [List.map_cons, run, List.foldl_cons]
    have mono : ∀ (l : List Nat) (e : Ent) (c : Cmd), c ∈ e.queue → c ∈ (run false e (l.map Act.runSys)).queue := by
      intro l
      induction l with
      | nil => intro e c h; exact h
      | cons a l ihl =>
        intro e c h
        simp only [List.map_cons, run, List.foldl_cons]
        exact ihl _ c ((runSys_mono e a).1 c h)
    by_cases hji : j = i
    · subst hji
      intro c hc
      apply mono order
      simp only [step, hs, hadd, hval, Bool.true_and, Bool.false_and, Bool.false_eq_true, if_false, List.nil_append]
      have hall : s.without.all (fun c => !e.has c) = true := by
        rw [List.all_eq_true]; intro c hc; simp [habs c hc]
      simp only [hall, if_true, List.mem_append]
      exact Or.inr (List.mem_map.mpr ⟨c, hc, rfl⟩)
    · have hi' : i ∈ order := by
        rcases List.mem_cons.mp hi with h | h
        · exact absurd h.symm hji
        · exact h
      obtain ⟨v1, v2, v3, _⟩ := runSys_val e j
      apply ih (step false e (.runSys j)) hi'
      · rw [(runSys_mono e j).2 i (fun h => hji h.symm)]; exact hadd
      · rw [v1]; exact hval
      · intro c hc; rw [v3]; exact habs c hc

theorem run_append (b : Bool) (e : Ent) (xs ys : List Act) : run b e (xs ++ ys) = run b (run b e xs) ys := by
  simp [run, List.foldl_append]

/-- **within a frame**: if kind `k` has just arrived (its `Added` flags are up) and the companions a
system of kind `k` would insert are absent, then after one frame — every system once, in **any**
order — those companions are present -/
theorem fix_adds_within_a_frame (order : List Nat) (e : Ent) (i : Nat) (s : Sys) (hs : sysAt i = some s)
    (hi : i ∈ order) (hadd : e.added i = true) (hval : (e.val s.kind).isSome = true)
    (habs : ∀ c ∈ s.without, e.has c = false) :
    ∀ c ∈ s.inserts, (run false e (frame order)).has c = true := by
  intro c hc
  unfold frame
  rw [run_append]
  have hq := runOrder_queues order e i s hs hi hadd hval habs c hc
  simp only [run, List.foldl_cons, List.foldl_nil, step]
  exact (fold_has _ _).1 c hq

end Fix
end BevySync
