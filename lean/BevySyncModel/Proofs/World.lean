import BevySyncModel.Slice.World
namespace BevySync
namespace WorldSnap

/-! ### the joiner's handlers never drop a message of a well-scoped list -/

def spawnIds : List Msg → List Nat
  | [] => []
  | .spawn u :: ms => u :: spawnIds ms
  | _ :: ms => spawnIds ms

/-- every component / parent message comes after the spawn of the uuids it names (`K`: uuids known beforehand) -/
def Scoped : List Nat → List Msg → Prop
  | _, [] => True
  | K, .spawn u :: ms => Scoped (K ++ [u]) ms
  | K, .comp u _ _ :: ms => u ∈ K ∧ Scoped K ms
  | K, .parent c p :: ms => (c ∈ K ∧ p ∈ K) ∧ Scoped K ms

theorem scoped_mono : ∀ (ms : List Msg) (K K' : List Nat), (∀ x, x ∈ K → x ∈ K') → Scoped K ms → Scoped K' ms
  | [], _, _, _, _ => trivial
  | .spawn u :: ms, K, K', h, hs => by
    simp only [Scoped] at *
    exact scoped_mono ms _ _ (by intro x hx; simp at hx ⊢; rcases hx with hx | hx; exact Or.inl (h x hx); exact Or.inr hx) hs
  | .comp u t v :: ms, K, K', h, hs => by
    simp only [Scoped] at *
    exact ⟨h u hs.1, scoped_mono ms _ _ h hs.2⟩
  | .parent c p :: ms, K, K', h, hs => by
    simp only [Scoped] at *
    exact ⟨⟨h c hs.1.1, h p hs.1.2⟩, scoped_mono ms _ _ h hs.2⟩

theorem spawnIds_append (xs ys : List Msg) : spawnIds (xs ++ ys) = spawnIds xs ++ spawnIds ys := by
  induction xs with
  | nil => rfl
  | cons m xs ih => cases m <;> simp [spawnIds, ih]

theorem scoped_append : ∀ (xs ys : List Msg) (K : List Nat),
    Scoped K xs → Scoped (K ++ spawnIds xs) ys → Scoped K (xs ++ ys)
  | [], ys, K, _, h => by simpa [spawnIds] using h
  | .spawn u :: xs, ys, K, h1, h2 => by
    simp only [List.cons_append, Scoped, spawnIds] at *
    exact scoped_append xs ys _ h1 (by simpa [List.append_assoc] using h2)
  | .comp u t v :: xs, ys, K, h1, h2 => by
    simp only [List.cons_append, Scoped, spawnIds] at *
    exact ⟨h1.1, scoped_append xs ys _ h1.2 h2⟩
  | .parent c p :: xs, ys, K, h1, h2 => by
    simp only [List.cons_append, Scoped, spawnIds] at *
    exact ⟨h1.1, scoped_append xs ys _ h1.2 h2⟩

/-- a message that is not a spawn names known uuids only -/
def Names (K : List Nat) : Msg → Prop
  | .spawn _ => False
  | .comp u _ _ => u ∈ K
  | .parent c p => c ∈ K ∧ p ∈ K

theorem scoped_of_names : ∀ (ms : List Msg) (K : List Nat), (∀ m ∈ ms, Names K m) → Scoped K ms
  | [], _, _ => trivial
  | .spawn u :: ms, K, h => (h (.spawn u) (by simp)).elim
  | .comp u t v :: ms, K, h => ⟨h (.comp u t v) (by simp), scoped_of_names ms K (fun m hm => h m (by simp [hm]))⟩
  | .parent c p :: ms, K, h => ⟨h (.parent c p) (by simp), scoped_of_names ms K (fun m hm => h m (by simp [hm]))⟩

theorem scoped_spawns (us : List Nat) : ∀ K, Scoped K (us.map Msg.spawn) := by
  induction us with
  | nil => intro K; trivial
  | cons u us ih => intro K; exact ih _

theorem spawnIds_spawns (us : List Nat) : spawnIds (us.map Msg.spawn) = us := by
  induction us with
  | nil => rfl
  | cons u us ih => simp [spawnIds, ih]

theorem spawnIds_of_names (ms : List Msg) (K : List Nat) (h : ∀ m ∈ ms, Names K m) : spawnIds ms = [] := by
  induction ms with
  | nil => rfl
  | cons m ms ih =>
    cases m with
    | spawn u => exact (h (.spawn u) (by simp)).elim
    | comp u t v => simpa [spawnIds] using ih (fun m hm => h m (by simp [hm]))
    | parent c p => simpa [spawnIds] using ih (fun m hm => h m (by simp [hm]))

/-! ### what the handlers build from a scoped list -/

def compsOf : List Msg → List (Nat × Nat × Nat)
  | [] => []
  | .comp u t v :: ms => (u, t, v) :: compsOf ms
  | _ :: ms => compsOf ms

def parentsOf : List Msg → List (Nat × Nat)
  | [] => []
  | .parent c p :: ms => (c, p) :: parentsOf ms
  | _ :: ms => parentsOf ms

/-- inserting uuids one by one, skipping the known ones -/
def addAll : List Nat → List Nat → List Nat
  | K, [] => K
  | K, u :: us => addAll (if u ∈ K then K else K ++ [u]) us

theorem addAll_fresh : ∀ (us K : List Nat), (K ++ us).Nodup → addAll K us = K ++ us
  | [], K, _ => by simp [addAll]
  | u :: us, K, h => by
    have hu : u ∉ K := by
      intro hk
      have := List.nodup_append.mp h
      exact this.2.2 u hk u (by simp) rfl
    simp only [addAll, hu, if_false]
    rw [addAll_fresh us (K ++ [u]) (by simpa [List.append_assoc] using h)]
    simp [List.append_assoc]

theorem applyAll_scoped : ∀ (ms : List Msg) (c : Client), Scoped c.ents ms →
    (applyAll c ms).ents = addAll c.ents (spawnIds ms) ∧
    (applyAll c ms).comps = (compsOf ms).reverse ++ c.comps ∧
    (applyAll c ms).parents = (parentsOf ms).reverse ++ c.parents
  | [], c, _ => by simp [applyAll, addAll, spawnIds, compsOf, parentsOf]
  | .spawn u :: ms, c, h => by
    simp only [Scoped] at h
    have hs : Scoped (apply c (.spawn u)).ents ms := by
      by_cases hu : u ∈ c.ents
      · simp only [apply, hu, if_true]
        exact scoped_mono ms _ _ (by intro x hx; simp at hx; rcases hx with hx | hx; exact hx; exact hx ▸ hu) h
      · simpa only [apply, hu, if_false] using h
    have := applyAll_scoped ms (apply c (.spawn u)) hs
    simp only [applyAll, List.foldl_cons, spawnIds, addAll, compsOf, parentsOf] at *
    refine ⟨?_, ?_, ?_⟩
    · rw [this.1]; by_cases hu : u ∈ c.ents <;> simp [apply, hu]
    · rw [this.2.1]; by_cases hu : u ∈ c.ents <;> simp [apply, hu]
    · rw [this.2.2]; by_cases hu : u ∈ c.ents <;> simp [apply, hu]
  | .comp u t v :: ms, c, h => by
    simp only [Scoped] at h
    have ha : apply c (.comp u t v) = { c with comps := (u, t, v) :: c.comps } := by simp [apply, h.1]
    have := applyAll_scoped ms (apply c (.comp u t v)) (by rw [ha]; exact h.2)
    simp only [applyAll, List.foldl_cons, spawnIds, compsOf, parentsOf] at *
    rw [ha] at this ⊢
    refine ⟨this.1, ?_, this.2.2⟩
    rw [this.2.1]; simp
  | .parent ch p :: ms, c, h => by
    simp only [Scoped] at h
    have ha : apply c (.parent ch p) = { c with parents := (ch, p) :: c.parents } := by simp [apply, h.1]
    have := applyAll_scoped ms (apply c (.parent ch p)) (by rw [ha]; exact h.2)
    simp only [applyAll, List.foldl_cons, spawnIds, compsOf, parentsOf] at *
    rw [ha] at this ⊢
    refine ⟨this.1, this.2.1, ?_⟩
    rw [this.2.2]; simp

/-! ### the snapshot is well scoped, and what it consists of -/

theorem mem_compsOf (ms : List Msg) (u t v : Nat) : (u, t, v) ∈ compsOf ms ↔ Msg.comp u t v ∈ ms := by
  induction ms with
  | nil => simp [compsOf]
  | cons m ms ih => cases m <;> simp [compsOf, ih]

theorem mem_parentsOf (ms : List Msg) (c p : Nat) : (c, p) ∈ parentsOf ms ↔ Msg.parent c p ∈ ms := by
  induction ms with
  | nil => simp [parentsOf]
  | cons m ms ih => cases m <;> simp [parentsOf, ih]

def uuids (w : World) : List Nat := (allEnts w).map (·.uuid)

theorem compPart_names (a : Arch) (K : List Nat) :
    ∀ m ∈ a.types.flatMap (fun t => a.ents.filterMap (compMsg t)), Names (K ++ a.ents.map (·.uuid)) m := by
  intro m hm
  simp only [List.mem_flatMap, List.mem_filterMap, compMsg] at hm
  obtain ⟨t, _, e, he, hm⟩ := hm
  cases hl : e.vals.lookup t with
  | none => simp [hl] at hm
  | some v =>
    simp [hl] at hm
    subst hm
    simp only [Names, List.mem_append, List.mem_map]
    exact Or.inr ⟨e, he, rfl⟩

theorem spawnIds_archMsgs (a : Arch) : spawnIds (archMsgs a) = a.ents.map (·.uuid) := by
  unfold archMsgs
  rw [spawnIds_append, spawnIds_of_names _ _ (compPart_names a [])]
  have : a.ents.map (fun e => Msg.spawn e.uuid) = (a.ents.map (·.uuid)).map Msg.spawn := by simp [List.map_map]
  rw [this, spawnIds_spawns]; simp

theorem scoped_archMsgs (a : Arch) (K : List Nat) : Scoped K (archMsgs a) := by
  unfold archMsgs
  have : a.ents.map (fun e => Msg.spawn e.uuid) = (a.ents.map (·.uuid)).map Msg.spawn := by simp [List.map_map]
  rw [this]
  apply scoped_append
  · exact scoped_spawns _ _
  · rw [spawnIds_spawns]
    exact scoped_of_names _ _ (compPart_names a K)

theorem allEnts_cons (a : Arch) (w : World) : allEnts (a :: w) = a.ents ++ allEnts w := by
  simp [allEnts]

theorem scoped_archs : ∀ (w : World) (K : List Nat) (tail : List Msg),
    Scoped (K ++ uuids w) tail → Scoped K (w.flatMap archMsgs ++ tail)
  | [], K, tail, h => by simpa [uuids, allEnts] using h
  | a :: w, K, tail, h => by
    simp only [List.flatMap_cons, List.append_assoc]
    apply scoped_append
    · exact scoped_archMsgs a K
    · rw [spawnIds_archMsgs]
      apply scoped_archs w
      simpa [uuids, allEnts_cons, List.append_assoc] using h

theorem spawnIds_archs : ∀ w : World, spawnIds (w.flatMap archMsgs) = uuids w
  | [] => by simp [spawnIds, uuids, allEnts]
  | a :: w => by
    simp only [List.flatMap_cons, spawnIds_append, spawnIds_archMsgs, spawnIds_archs w]
    simp [uuids, allEnts_cons]

theorem parentPart_names (w : World) (hw : WF w) : ∀ m ∈ (allEnts w).filterMap parentMsg, Names (uuids w) m := by
  intro m hm
  simp only [List.mem_filterMap, parentMsg] at hm
  obtain ⟨e, he, hm⟩ := hm
  cases hp : e.parent with
  | none => simp [hp] at hm
  | some p =>
    simp [hp] at hm
    subst hm
    exact ⟨List.mem_map.mpr ⟨e, he, rfl⟩, hw.parents e he p hp⟩

theorem mem_spawnsFirst (l : List Msg) (m : Msg) : m ∈ spawnsFirst l ↔ m ∈ l := by
  unfold spawnsFirst
  simp only [List.mem_append, List.mem_filter]
  constructor
  · intro h; rcases h with h | h <;> exact h.1
  · intro h
    by_cases hs : isSpawn m = true
    · exact Or.inl ⟨h, hs⟩
    · exact Or.inr ⟨h, by simpa using hs⟩

theorem spawnIds_filter_spawn (l : List Msg) : spawnIds (l.filter isSpawn) = spawnIds l := by
  induction l with
  | nil => rfl
  | cons m l ih => cases m <;> simp [List.filter, isSpawn, spawnIds, ih]

theorem spawnIds_nonspawn (l : List Msg) (h : ∀ m ∈ l, isSpawn m = false) : spawnIds l = [] := by
  induction l with
  | nil => rfl
  | cons m l ih =>
    cases m with
    | spawn u => simpa [isSpawn] using h (.spawn u) (by simp)
    | comp u t v => simpa [spawnIds] using ih (fun m hm => h m (by simp [hm]))
    | parent c p => simpa [spawnIds] using ih (fun m hm => h m (by simp [hm]))

theorem scoped_all_spawns : ∀ (l : List Msg) (K : List Nat), (∀ m ∈ l, isSpawn m = true) → Scoped K l
  | [], _, _ => trivial
  | .spawn u :: l, K, h => scoped_all_spawns l _ (fun m hm => h m (by simp [hm]))
  | .comp u t v :: l, K, h => by simpa [isSpawn] using h (.comp u t v) (by simp)
  | .parent c p :: l, K, h => by simpa [isSpawn] using h (.parent c p) (by simp)

theorem mem_allEnts (w : World) (e : HEnt) : e ∈ allEnts w ↔ ∃ a ∈ w, e ∈ a.ents := by
  simp [allEnts, List.mem_flatMap]

/-- what `check_entity_components` pushes besides spawns names tracked entities only -/
theorem nonspawn_names (w : World) : ∀ m ∈ w.flatMap archMsgs, isSpawn m = false → Names (uuids w) m := by
  intro m hm hs
  simp only [List.mem_flatMap] at hm
  obtain ⟨a, ha, hm⟩ := hm
  unfold archMsgs at hm
  rw [List.mem_append] at hm
  rcases hm with hm | hm
  · simp only [List.mem_map] at hm
    obtain ⟨e, _, he⟩ := hm
    subst he
    simp [isSpawn] at hs
  · have := compPart_names a [] m hm
    cases m with
    | spawn u => simp [isSpawn] at hs
    | comp u t v =>
      simp only [Names, List.nil_append, List.mem_map] at this ⊢
      obtain ⟨e, he, hu⟩ := this
      exact List.mem_map.mpr ⟨e, (mem_allEnts w e).mpr ⟨a, ha, he⟩, hu⟩
    | parent c p =>
      simp only [List.mem_flatMap, List.mem_filterMap, compMsg] at hm
      obtain ⟨t, _, e, _, hm⟩ := hm
      cases hl : e.vals.lookup t <;> simp [hl] at hm

/-- the tail of the snapshot — everything behind the spawns — names tracked entities only -/
theorem tail_names (w : World) (hw : WF w) :
    ∀ m ∈ (w.flatMap archMsgs).filter (fun m => !isSpawn m) ++ (allEnts w).filterMap parentMsg, Names (uuids w) m := by
  intro m hm
  rw [List.mem_append] at hm
  rcases hm with hm | hm
  · rw [List.mem_filter] at hm
    exact nonspawn_names w m hm.1 (by simpa using hm.2)
  · exact parentPart_names w hw m hm

theorem snapshot_eq (w : World) :
    snapshot w = (w.flatMap archMsgs).filter isSpawn ++
      ((w.flatMap archMsgs).filter (fun m => !isSpawn m) ++ (allEnts w).filterMap parentMsg) := by
  simp [snapshot, snapshotG, spawnsFirst, List.append_assoc]

theorem snapshot_scoped (w : World) (hw : WF w) : Scoped [] (snapshot w) := by
  rw [snapshot_eq]
  apply scoped_append
  · exact scoped_all_spawns _ _ (fun m hm => (List.mem_filter.mp hm).2)
  · rw [spawnIds_filter_spawn, spawnIds_archs]
    simpa using scoped_of_names _ _ (tail_names w hw)

theorem spawnIds_snapshot (w : World) (hw : WF w) : spawnIds (snapshot w) = uuids w := by
  rw [snapshot_eq, spawnIds_append, spawnIds_filter_spawn, spawnIds_archs,
    spawnIds_of_names _ _ (tail_names w hw)]
  simp

theorem comp_mem_snapshot (w : World) (u t v : Nat) :
    Msg.comp u t v ∈ snapshot w ↔ ∃ a ∈ w, t ∈ a.types ∧ ∃ e ∈ a.ents, e.uuid = u ∧ e.vals.lookup t = some v := by
  unfold snapshot snapshotG
  simp only [if_true, List.mem_append, mem_spawnsFirst, List.mem_flatMap, archMsgs, List.mem_map, List.mem_filterMap, compMsg, parentMsg]
  constructor
  · intro h
    rcases h with ⟨a, ha, h | h⟩ | h
    · obtain ⟨e, _, he⟩ := h; cases he
    · obtain ⟨t', ht', e, he, hm⟩ := h
      cases hl : e.vals.lookup t' with
      | none => simp [hl] at hm
      | some v' =>
        simp [hl] at hm
        obtain ⟨h1, h2, h3⟩ := hm
        subst h1 h2 h3
        exact ⟨a, ha, ht', e, he, rfl, hl⟩
    · obtain ⟨e, _, hm⟩ := h
      cases hp : e.parent <;> simp [hp] at hm
  · intro ⟨a, ha, ht, e, he, hu, hl⟩
    exact Or.inl ⟨a, ha, Or.inr ⟨t, ht, e, he, by simp [hl, hu]⟩⟩

theorem parent_mem_snapshot (w : World) (c p : Nat) :
    Msg.parent c p ∈ snapshot w ↔ ∃ e ∈ allEnts w, e.uuid = c ∧ e.parent = some p := by
  unfold snapshot snapshotG
  simp only [if_true, List.mem_append, mem_spawnsFirst, List.mem_flatMap, archMsgs, List.mem_map, List.mem_filterMap, compMsg, parentMsg]
  constructor
  · intro h
    rcases h with ⟨a, _, h | h⟩ | h
    · obtain ⟨e, _, he⟩ := h; cases he
    · obtain ⟨t', _, e, _, hm⟩ := h
      cases hl : e.vals.lookup t' <;> simp [hl] at hm
    · obtain ⟨e, he, hm⟩ := h
      cases hp : e.parent with
      | none => simp [hp] at hm
      | some p' =>
        simp [hp] at hm
        obtain ⟨h1, h2⟩ := hm
        subst h1 h2
        exact ⟨e, he, rfl, hp⟩
  · intro ⟨e, he, hu, hp⟩
    exact Or.inr ⟨e, he, by simp [hp, hu]⟩

/-! ### the joiner ends with the host's world -/

theorem inj_of_nodup_map {α β : Type} (f : α → β) : ∀ (l : List α), (l.map f).Nodup → ∀ a ∈ l, ∀ b ∈ l, f a = f b → a = b
  | [], _, a, ha, _, _, _ => by simp at ha
  | x :: l, h, a, ha, b, hb, hab => by
    simp only [List.map_cons, List.nodup_cons, List.mem_map, not_exists, not_and] at h
    simp only [List.mem_cons] at ha hb
    rcases ha with ha | ha <;> rcases hb with hb | hb
    · rw [ha, hb]
    · subst ha; exact (h.1 b hb hab.symm).elim
    · subst hb; exact (h.1 a ha hab).elim
    · exact inj_of_nodup_map f l h.2 a ha b hb hab

theorem find_of_functional {α : Type} (l : List α) (p : α → Bool) (x : α) (hx : x ∈ l) (hp : p x = true)
    (hf : ∀ y ∈ l, p y = true → y = x) : l.find? p = some x := by
  cases h : l.find? p with
  | none => exact absurd hp (by simpa using (List.find?_eq_none.mp h) x hx)
  | some y => rw [hf y (List.mem_of_find?_eq_some h) (List.find?_some h)]

/-- **the snapshot rebuilds the host's world on a fresh joiner**: the joiner knows exactly the host's tracked uuids (each once,
in snapshot order), holds for every entity and every component type exactly the value the host listed (nothing where the
host listed nothing) and has every child under the host's parent — no message of the snapshot is dropped as "unknown
entity", whatever the archetypes, their order and the order of entities and components inside them -/
theorem snapshot_rebuilds (w : World) (hw : WF w) :
    let c := applyAll {} (snapshot w)
    c.ents = uuids w ∧
    (∀ e ∈ allEnts w, ∀ t, getComp c e.uuid t = e.vals.lookup t) ∧
    (∀ e ∈ allEnts w, getParent c e.uuid = e.parent) := by
  intro c
  have hs := applyAll_scoped (snapshot w) {} (snapshot_scoped w hw)
  have hinj := inj_of_nodup_map (·.uuid) (allEnts w) hw.nodup
  refine ⟨?_, ?_, ?_⟩
  · show (applyAll {} (snapshot w)).ents = uuids w
    rw [hs.1, spawnIds_snapshot w hw]
    have := addAll_fresh (uuids w) [] (by simpa [uuids] using hw.nodup)
    simpa using this
  · intro e he t
    show getComp (applyAll {} (snapshot w)) e.uuid t = e.vals.lookup t
    unfold getComp
    rw [hs.2.1]
    simp only [List.append_nil]
    obtain ⟨a, ha, hea⟩ := (mem_allEnts w e).mp he
    cases hl : e.vals.lookup t with
    | some v =>
      have hx : (e.uuid, t, v) ∈ (compsOf (snapshot w)).reverse := by
        rw [List.mem_reverse, mem_compsOf, comp_mem_snapshot]
        exact ⟨a, ha, hw.typed a ha e hea t v hl, e, hea, rfl, hl⟩
      rw [find_of_functional _ _ (e.uuid, t, v) hx (by simp)]
      · rfl
      · intro y hy hp
        obtain ⟨u', t', v'⟩ := y
        simp only [Bool.and_eq_true, beq_iff_eq] at hp
        obtain ⟨h1, h2⟩ := hp
        subst h1 h2
        rw [List.mem_reverse, mem_compsOf, comp_mem_snapshot] at hy
        obtain ⟨a', ha', _, e', he', hu', hl'⟩ := hy
        have : e' = e := hinj e' ((mem_allEnts w e').mpr ⟨a', ha', he'⟩) e he hu'
        subst this
        rw [hl] at hl'
        cases hl'
        rfl
    | none =>
      have : (compsOf (snapshot w)).reverse.find? (fun x => x.1 == e.uuid && x.2.1 == t) = none := by
        rw [List.find?_eq_none]
        intro y hy hp
        obtain ⟨u', t', v'⟩ := y
        simp only [Bool.and_eq_true, beq_iff_eq] at hp
        obtain ⟨h1, h2⟩ := hp
        subst h1 h2
        rw [List.mem_reverse, mem_compsOf, comp_mem_snapshot] at hy
        obtain ⟨a', ha', _, e', he', hu', hl'⟩ := hy
        have : e' = e := hinj e' ((mem_allEnts w e').mpr ⟨a', ha', he'⟩) e he hu'
        subst this
        rw [hl] at hl'
        cases hl'
      rw [this]; rfl
  · intro e he
    show getParent (applyAll {} (snapshot w)) e.uuid = e.parent
    unfold getParent
    rw [hs.2.2]
    simp only [List.append_nil]
    cases hp : e.parent with
    | some p =>
      have hx : (e.uuid, p) ∈ (parentsOf (snapshot w)).reverse := by
        rw [List.mem_reverse, mem_parentsOf, parent_mem_snapshot]
        exact ⟨e, he, rfl, hp⟩
      rw [find_of_functional _ _ (e.uuid, p) hx (by simp)]
      · rfl
      · intro y hy hq
        obtain ⟨c', p'⟩ := y
        simp only [beq_iff_eq] at hq
        subst hq
        rw [List.mem_reverse, mem_parentsOf, parent_mem_snapshot] at hy
        obtain ⟨e', he', hu', hp'⟩ := hy
        have : e' = e := hinj e' he' e he hu'
        subst this
        rw [hp] at hp'
        cases hp'
        rfl
    | none =>
      have : (parentsOf (snapshot w)).reverse.find? (fun x => x.1 == e.uuid) = none := by
        rw [List.find?_eq_none]
        intro y hy hq
        obtain ⟨c', p'⟩ := y
        simp only [beq_iff_eq] at hq
        subst hq
        rw [List.mem_reverse, mem_parentsOf, parent_mem_snapshot] at hy
        obtain ⟨e', he', hu', hp'⟩ := hy
        have : e' = e := hinj e' he' e he hu'
        subst this
        rw [hp] at hp'
        cases hp'
      rw [this]; rfl

/-- nothing beyond the host's world: a uuid the host does not track is unknown to the joiner -/
theorem snapshot_nothing_else (w : World) (hw : WF w) (u : Nat) (hu : u ∉ uuids w) :
    u ∉ (applyAll {} (snapshot w)).ents := by
  rw [(snapshot_rebuilds w hw).1]; exact hu

/-! ### every entity is known before anything that can name it is handled — however the list is cut into frames -/

theorem scoped_prefix : ∀ (pre post : List Msg) (K : List Nat), Scoped K (pre ++ post) → Scoped K pre
  | [], _, _, _ => trivial
  | .spawn u :: pre, post, K, h => by
    simp only [List.cons_append, Scoped] at *
    exact scoped_prefix pre post _ h
  | .comp u t v :: pre, post, K, h => by
    simp only [List.cons_append, Scoped] at *
    exact ⟨h.1, scoped_prefix pre post _ h.2⟩
  | .parent c p :: pre, post, K, h => by
    simp only [List.cons_append, Scoped] at *
    exact ⟨h.1, scoped_prefix pre post _ h.2⟩

/-- in the snapshot every `EntitySpawn` precedes every other message: whatever stands before a component or a parent pair
contains the spawn of **every** tracked entity (repair of D21) -/
theorem spawns_precede (w : World) (hw : WF w) (pre post : List Msg) (m : Msg)
    (h : snapshot w = pre ++ m :: post) (hm : isSpawn m = false) : spawnIds pre = uuids w := by
  rw [snapshot_eq, List.append_eq_append_iff] at h
  rcases h with ⟨a', h1, h2⟩ | ⟨c', h1, h2⟩
  · -- pre = spawns ++ a', a' a prefix of the tail
    rw [h1, spawnIds_append, spawnIds_filter_spawn, spawnIds_archs]
    have : spawnIds a' = [] := by
      apply spawnIds_of_names a' (uuids w)
      intro x hx
      exact tail_names w hw x (by rw [h2]; simp [hx])
    rw [this]; simp
  · -- the spawns would reach beyond `pre`: then `m` is one of them, or `pre` is exactly the spawns
    cases c' with
    | nil =>
      simp only [List.append_nil] at h1
      rw [← h1, spawnIds_filter_spawn, spawnIds_archs]
    | cons x xs =>
      simp only [List.cons_append, List.cons.injEq] at h2
      have : m ∈ (w.flatMap archMsgs).filter isSpawn := by rw [h1, h2.1]; simp
      have := (List.mem_filter.mp this).2
      rw [hm] at this
      cases this

/-- … so the joiner knows every entity of the host when it handles any component or parent pair of the snapshot — in the frame
in which that message arrives and in every later one, however the ordered channel cuts the snapshot into frames.  A component
that names other entities (the joints of a `SkinnedMesh`, resolved through the uuid map when it is applied at the end of that
frame) finds all of them. -/
theorem all_known_when_handled (w : World) (hw : WF w) (pre post : List Msg) (m : Msg)
    (h : snapshot w = pre ++ m :: post) (hm : isSpawn m = false) : (applyAll {} pre).ents = uuids w := by
  have hsc : Scoped [] pre := scoped_prefix pre (m :: post) [] (by rw [← h]; exact snapshot_scoped w hw)
  rw [(applyAll_scoped pre {} hsc).1, spawns_precede w hw pre post m h hm]
  have := addAll_fresh (uuids w) [] (by simpa [uuids] using hw.nodup)
  simpa using this

/-! ### a client that returns still holding a world -/

theorem mem_addAll : ∀ (us K : List Nat) (x : Nat), x ∈ addAll K us ↔ x ∈ K ∨ x ∈ us
  | [], K, x => by simp [addAll]
  | u :: us, K, x => by
    simp only [addAll]
    rw [mem_addAll us]
    by_cases hu : u ∈ K
    · simp only [hu, if_true, List.mem_cons]
      constructor
      · intro h; rcases h with h | h; exact Or.inl h; exact Or.inr (Or.inr h)
      · intro h; rcases h with h | h | h; exact Or.inl h; exact Or.inl (h ▸ hu); exact Or.inr h
    · simp only [hu, if_false, List.mem_append, List.mem_cons, List.not_mem_nil, or_false]
      constructor
      · intro h; rcases h with (h | h) | h; exact Or.inl h; exact Or.inr (Or.inl h); exact Or.inr (Or.inr h)
      · intro h; rcases h with h | h | h; exact Or.inl (Or.inl h); exact Or.inl (Or.inr h); exact Or.inr h

/-- **a returning client** (it still holds entities, values and links from before): the snapshot is applied on top — spawns
of uuids it knows are ignored by the duplicate guard, every listed value and link replaces what it held.  It ends knowing
every uuid of the host, holding every value and link the host listed; what it knew before and the host does not list is
**kept** (entities, and values / links of types the host no longer lists): the snapshot cannot say "drop it" — D16. -/
theorem snapshot_on_returning (w : World) (hw : WF w) (c0 : Client) :
    let c := applyAll c0 (snapshot w)
    (∀ u, u ∈ c.ents ↔ u ∈ c0.ents ∨ u ∈ uuids w) ∧
    (∀ e ∈ allEnts w, ∀ t v, e.vals.lookup t = some v → getComp c e.uuid t = some v) ∧
    (∀ e ∈ allEnts w, ∀ p, e.parent = some p → getParent c e.uuid = some p) := by
  intro c
  have hsc : Scoped c0.ents (snapshot w) := scoped_mono _ [] _ (by intro x hx; simp at hx) (snapshot_scoped w hw)
  have hs := applyAll_scoped (snapshot w) c0 hsc
  have hinj := inj_of_nodup_map (·.uuid) (allEnts w) hw.nodup
  refine ⟨?_, ?_, ?_⟩
  · intro u
    show u ∈ (applyAll c0 (snapshot w)).ents ↔ _
    rw [hs.1, spawnIds_snapshot w hw, mem_addAll]
  · intro e he t v hl
    show getComp (applyAll c0 (snapshot w)) e.uuid t = some v
    unfold getComp
    rw [hs.2.1, List.find?_append]
    obtain ⟨a, ha, hea⟩ := (mem_allEnts w e).mp he
    have hx : (e.uuid, t, v) ∈ (compsOf (snapshot w)).reverse := by
      rw [List.mem_reverse, mem_compsOf, comp_mem_snapshot]
      exact ⟨a, ha, hw.typed a ha e hea t v hl, e, hea, rfl, hl⟩
    rw [find_of_functional _ _ (e.uuid, t, v) hx (by simp)]
    · rfl
    · intro y hy hp
      obtain ⟨u', t', v'⟩ := y
      simp only [Bool.and_eq_true, beq_iff_eq] at hp
      obtain ⟨h1, h2⟩ := hp
      subst h1 h2
      rw [List.mem_reverse, mem_compsOf, comp_mem_snapshot] at hy
      obtain ⟨a', ha', _, e', he', hu', hl'⟩ := hy
      have : e' = e := hinj e' ((mem_allEnts w e').mpr ⟨a', ha', he'⟩) e he hu'
      subst this
      rw [hl] at hl'
      cases hl'
      rfl
  · intro e he p hp
    show getParent (applyAll c0 (snapshot w)) e.uuid = some p
    unfold getParent
    rw [hs.2.2, List.find?_append]
    have hx : (e.uuid, p) ∈ (parentsOf (snapshot w)).reverse := by
      rw [List.mem_reverse, mem_parentsOf, parent_mem_snapshot]
      exact ⟨e, he, rfl, hp⟩
    rw [find_of_functional _ _ (e.uuid, p) hx (by simp)]
    · rfl
    · intro y hy hq
      obtain ⟨c', p'⟩ := y
      simp only [beq_iff_eq] at hq
      subst hq
      rw [List.mem_reverse, mem_parentsOf, parent_mem_snapshot] at hy
      obtain ⟨e', he', hu', hp'⟩ := hy
      have : e' = e := hinj e' he' e he hu'
      subst this
      rw [hp] at hp'
      cases hp'
      rfl

/-! ### a peer that returns holding the very world the host holds (the former host after a hand-over) -/

theorem addAll_nodup : ∀ (us K : List Nat), K.Nodup → (addAll K us).Nodup
  | [], K, h => by simpa [addAll] using h
  | u :: us, K, h => by
    simp only [addAll]
    by_cases hu : u ∈ K
    · simp only [hu, if_true]; exact addAll_nodup us K h
    · simp only [hu, if_false]
      apply addAll_nodup us
      rw [List.nodup_append]
      exact ⟨h, by simp, by intro a ha b hb hab; simp at hb; subst hb; subst hab; exact hu ha⟩

/-- a returning peer whose replicas are exactly the host's entities, each once (every peer of a settled session; the former host
of a hand-over in particular): after the snapshot it still holds each of them exactly once — none lost, none duplicated — with
every value and link the host lists -/
theorem snapshot_on_agreeing (w : World) (hw : WF w) (c0 : Client) (hn : c0.ents.Nodup)
    (hsame : ∀ u, u ∈ c0.ents ↔ u ∈ uuids w) :
    let c := applyAll c0 (snapshot w)
    c.ents = c0.ents ∧ c.ents.Nodup ∧ (∀ u, u ∈ c.ents ↔ u ∈ uuids w) ∧
    (∀ e ∈ allEnts w, ∀ t v, e.vals.lookup t = some v → getComp c e.uuid t = some v) ∧
    (∀ e ∈ allEnts w, ∀ p, e.parent = some p → getParent c e.uuid = some p) := by
  intro c
  have hr := snapshot_on_returning w hw c0
  have hsc : Scoped c0.ents (snapshot w) := scoped_mono _ [] _ (by intro x hx; simp at hx) (snapshot_scoped w hw)
  have he : c.ents = addAll c0.ents (uuids w) := by
    show (applyAll c0 (snapshot w)).ents = _
    rw [(applyAll_scoped (snapshot w) c0 hsc).1, spawnIds_snapshot w hw]
  have hk : ∀ (us K : List Nat), (∀ u ∈ us, u ∈ K) → addAll K us = K := by
    intro us
    induction us with
    | nil => intro K _; rfl
    | cons u us ih =>
      intro K h
      have hu : u ∈ K := h u (by simp)
      simp only [addAll, hu, if_true]
      exact ih K (fun x hx => h x (by simp [hx]))
  have hid : c.ents = c0.ents := by rw [he]; exact hk _ _ (fun u hu => (hsame u).mpr hu)
  refine ⟨hid, by rw [hid]; exact hn, ?_, hr.2.1, hr.2.2⟩
  intro u
  rw [hid]; exact hsame u

end WorldSnap
end BevySync
