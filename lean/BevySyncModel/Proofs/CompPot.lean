import BevySyncModel.Proofs.CompBound
import BevySyncModel.Proofs.SumPot
/-! Bounded work in the component slice (C09) for **any** mix of writers, any schedule, any patch function and both relay
modes (`relayAlways = true` is the parent-link variant): each application write costs at most `N + 1` messages (`N` clients).

Potential: messages sent so far, plus `N + 1` for every peer holding a change that no debounce token covers, plus what the
queues and channels towards the host still cost (`N` per value queued on the host, in its closures or on a channel up,
`N + 1` per value queued on a client).  Applying a value from the network sets the token together with the change flag, so
it never raises the potential: that is "no echo" as an inequality, and it needs no assumption on who writes when. -/
namespace BevySync
namespace Comp
open SumPot

variable {V : Type} {ra : Bool} [DecidableEq V]

def unc (W : Nat) (p : Peer V) : Nat := if p.dirty && !p.token then W else 0

def cwt (N : Nat) (c : Client V) : Nat := unc (N + 1) c.p + (N + 1) * c.p.queue.length + N * c.up.length

def gpot (s : State V) : Nat :=
  s.sent + unc (s.clients.length + 1) s.host + s.clients.length * s.host.queue.length +
    s.clients.length * s.hdefer.length + total (cwt s.clients.length) s.clients

def wcost : Act V → Nat
  | .writeH _ | .writeC _ _ => 1
  | _ => 0

def wops (as : List (Act V)) : Nat := (as.map wcost).sum

theorem unc_write (W : Nat) (p : Peer V) (v : V) : unc W (write p v) ≤ unc W p + W ∧ (write p v).queue = p.queue := by
  refine ⟨?_, rfl⟩
  cases hd : p.dirty <;> cases ht : p.token <;> simp [unc, write, hd, ht]

/-- `detect`: an uncovered change becomes at most one queued value -/
theorem unc_detect (W Q : Nat) (hQ : Q ≤ W) (p : Peer V) :
    unc W (detect p) + Q * (detect p).queue.length ≤ unc W p + Q * p.queue.length := by
  unfold detect
  cases hd : p.dirty with
  | false => simp
  | true =>
    cases ht : p.token with
    | true => simp [unc, hd, ht]
    | false =>
      cases hv : p.val with
      | none => simp [unc, hd, ht]
      | some v =>
        have h := Nat.mul_add Q p.queue.length 1
        rw [Nat.mul_one] at h
        simp [unc, hd, ht]
        omega

/-- `apply_component_change_from_network` never uncovers a change -/
theorem unc_apply (W : Nat) (pt : V → V → V) (p : Peer V) (v : V) :
    unc W (apply false pt p v).1 ≤ unc W p ∧ (apply false pt p v).1.queue = p.queue := by
  unfold apply
  by_cases h : p.val = some v
  · simp [h]
  · simp [h, unc]

def cReactF (c : Client V) : Client V := { c with p := { c.p with queue := [] }, up := c.up ++ c.p.queue }

def cFlushF (pt : V → V → V) (c : Client V) : Client V :=
  match c.defer with
  | [] => c
  | v :: rest => { c with p := (apply false pt c.p v).1, defer := rest }

theorem step_reactC (pt : V → V → V) (s : State V) (i : Nat) : step ra false pt s (.reactC i) =
    { s with clients := onClient i cReactF s.clients,
             sent := s.sent + ((findClient i s.clients).map (fun c => c.p.queue.length)).getD 0 } := rfl

theorem step_flushC (pt : V → V → V) (s : State V) (i : Nat) : step ra false pt s (.flushC i) =
    { s with clients := onClient i (cFlushF pt) s.clients } := rfl

theorem length_step' (pt : V → V → V) (s : State V) (a : Act V) :
    (step ra false pt s a).clients.length = s.clients.length := by
  have := congrArg List.length (ids_step (ra := ra) false pt s a)
  simpa using this

theorem gpot_step (pt : V → V → V) (s : State V) (a : Act V) (hn : (s.clients.map (·.id)).Nodup) :
    gpot (step ra false pt s a) ≤ gpot s + (s.clients.length + 1) * wcost a := by
  cases a with
  | writeH v =>
    obtain ⟨h1, h2⟩ := unc_write (s.clients.length + 1) s.host v
    simp only [gpot, step, wcost, Nat.mul_one, h2]
    omega
  | detectH =>
    have := unc_detect (s.clients.length + 1) s.clients.length (Nat.le_succ _) s.host
    simp only [gpot, step, wcost, Nat.mul_zero, Nat.add_zero]
    omega
  | reactH =>
    have he := total_map_eq (cwt s.clients.length) (fun c : Client V => { c with down := c.down ++ s.host.queue }) s.clients
      (fun c _ => rfl)
    simp only [gpot, step, wcost, Nat.mul_zero, Nat.add_zero, List.length_map, he, List.length_nil, unc]
    rw [Nat.mul_comm s.host.queue.length]
    omega
  | pollH i n =>
    simp only [wcost, Nat.mul_zero, Nat.add_zero]
    cases hf : findClient i s.clients with
    | none => simp only [step, hf]; exact Nat.le_refl _
    | some c0 =>
      simp only [step, hf]
      have hl : (onClient i (fun c : Client V => { c with up := c.up.drop n }) s.clients).length = s.clients.length :=
        length_on _ _ _ _
      have hpay := total_on_pay (cwt s.clients.length) (·.id) i (s.clients.length * (c0.up.take n).length)
        (fun c : Client V => { c with up := c.up.drop n }) s.clients c0 hf
        (by
          intro c _
          simp only [cwt, List.length_drop]
          exact Nat.add_le_add_left (Nat.mul_le_mul_left _ (Nat.sub_le _ _)) _)
        (by
          simp only [cwt]
          have e : (c0.up.drop n).length + (c0.up.take n).length = c0.up.length := by
            simp only [List.length_drop, List.length_take]; omega
          rw [← e, Nat.mul_add]
          omega)
      have e : onClient i (fun c : Client V => { c with up := c.up.drop n }) s.clients =
          on (·.id) i (fun c : Client V => { c with up := c.up.drop n }) s.clients := rfl
      simp only [gpot, hl, List.length_append, List.length_map, Nat.mul_add]
      rw [e]
      omega
  | flushH =>
    simp only [wcost, Nat.mul_zero, Nat.add_zero]
    simp only [step]
    cases hdf : s.hdefer with
    | nil => simp only [gpot, hdf]; exact Nat.le_refl _
    | cons m rest =>
      obtain ⟨i, v⟩ := m
      obtain ⟨h1, h2⟩ := unc_apply (s.clients.length + 1) pt s.host v
      have hf := List.length_filter_le (fun c : Client V => c.id ≠ i) s.clients
      have he := total_map_eq (cwt s.clients.length) (fun c : Client V => if c.id = i then c else { c with down := c.down ++ [v] })
        s.clients (fun c _ => by split <;> rfl)
      simp only
      split
      · simp only [gpot, hdf, List.length_map, he, h2, List.length_cons, Nat.mul_succ]
        omega
      · simp only [gpot, hdf, h2, List.length_cons, Nat.mul_succ]
        omega
  | writeC i v =>
    simp only [gpot, step, wcost, Nat.mul_one]
    have hl : (onClient i (fun c : Client V => { c with p := write c.p v }) s.clients).length = s.clients.length :=
      length_on _ _ _ _
    have := total_on_add (cwt s.clients.length) (·.id) i (s.clients.length + 1)
      (fun c : Client V => { c with p := write c.p v }) s.clients hn
      (by
        intro c _
        obtain ⟨h1, h2⟩ := unc_write (s.clients.length + 1) c.p v
        simp only [cwt, h2]
        omega)
    have e : onClient i (fun c : Client V => { c with p := write c.p v }) s.clients =
        on (·.id) i (fun c : Client V => { c with p := write c.p v }) s.clients := rfl
    rw [hl, e]
    omega
  | detectC i =>
    simp only [gpot, step, wcost, Nat.mul_zero, Nat.add_zero]
    have hl : (onClient i (fun c : Client V => { c with p := detect c.p }) s.clients).length = s.clients.length :=
      length_on _ _ _ _
    have := total_on_le (cwt s.clients.length) (·.id) i (fun c : Client V => { c with p := detect c.p }) s.clients
      (by
        intro c _
        have := unc_detect (s.clients.length + 1) (s.clients.length + 1) (Nat.le_refl _) c.p
        simp only [cwt]
        omega)
    have e : onClient i (fun c : Client V => { c with p := detect c.p }) s.clients =
        on (·.id) i (fun c : Client V => { c with p := detect c.p }) s.clients := rfl
    rw [hl, e]
    omega
  | reactC i =>
    rw [step_reactC]
    simp only [gpot, wcost, Nat.mul_zero, Nat.add_zero]
    have hl : (onClient i cReactF s.clients).length = s.clients.length := length_on _ _ _ _
    have e : onClient i cReactF s.clients = on (·.id) i cReactF s.clients := rfl
    have hone : ∀ c : Client V, cwt s.clients.length (cReactF c) + c.p.queue.length = cwt s.clients.length c := by
      intro c
      have hu : unc (s.clients.length + 1) ({ c.p with queue := [] } : Peer V) = unc (s.clients.length + 1) c.p := rfl
      simp only [cwt, cReactF, hu, List.length_nil, Nat.mul_zero, Nat.add_zero, List.length_append, Nat.mul_add, Nat.add_mul,
        Nat.one_mul]
      omega
    rw [hl, e]
    cases hf : findClient i s.clients with
    | none =>
      rw [on_absent (·.id) i _ s.clients (find_none_absent (fun c : Client V => c.id) hf)]
      simp
    | some c0 =>
      have := total_on_pay (cwt s.clients.length) (·.id) i c0.p.queue.length cReactF s.clients c0 hf
        (fun c _ => by have := hone c; omega) (by have := hone c0; omega)
      simp only [Option.map_some, Option.getD_some]
      omega
  | pollC i n =>
    simp only [gpot, step, wcost, Nat.mul_zero, Nat.add_zero]
    have hl : (onClient i (fun c : Client V => { c with defer := c.defer ++ c.down.take n, down := c.down.drop n }) s.clients).length =
        s.clients.length := length_on _ _ _ _
    have := total_on_le (cwt s.clients.length) (·.id) i
      (fun c : Client V => { c with defer := c.defer ++ c.down.take n, down := c.down.drop n }) s.clients
      (fun c _ => Nat.le_refl _)
    have e : onClient i (fun c : Client V => { c with defer := c.defer ++ c.down.take n, down := c.down.drop n }) s.clients =
        on (·.id) i (fun c : Client V => { c with defer := c.defer ++ c.down.take n, down := c.down.drop n }) s.clients := rfl
    rw [hl, e]
    omega
  | flushC i =>
    rw [step_flushC]
    simp only [gpot, wcost, Nat.mul_zero, Nat.add_zero]
    have hl : (onClient i (cFlushF pt) s.clients).length = s.clients.length := length_on _ _ _ _
    have := total_on_le (cwt s.clients.length) (·.id) i (cFlushF pt) s.clients
      (by
        intro c _
        cases hdf : c.defer with
        | nil => simp only [cFlushF, hdf]; exact Nat.le_refl _
        | cons v rest =>
          obtain ⟨h1, h2⟩ := unc_apply (s.clients.length + 1) pt c.p v
          simp only [cFlushF, hdf, cwt, h2]
          omega)
    have e : onClient i (cFlushF pt) s.clients = on (·.id) i (cFlushF pt) s.clients := rfl
    rw [hl, e]
    omega

theorem gpot_run (pt : V → V → V) (s : State V) (as : List (Act V)) (hn : (s.clients.map (·.id)).Nodup) :
    (run ra false pt s as).clients.length = s.clients.length ∧
      gpot (run ra false pt s as) ≤ gpot s + (s.clients.length + 1) * wops as := by
  induction as generalizing s with
  | nil => exact ⟨rfl, by simp [run, wops]⟩
  | cons a as ih =>
    have hn' : ((step ra false pt s a).clients.map (·.id)).Nodup := by rw [ids_step]; exact hn
    obtain ⟨h1, h2⟩ := ih (step ra false pt s a) hn'
    have h3 := gpot_step (ra := ra) pt s a hn
    have hl := length_step' (ra := ra) pt s a
    simp only [run, List.foldl_cons] at h1 h2 ⊢
    refine ⟨by rw [h1, hl], ?_⟩
    rw [hl] at h2
    simp only [wops, List.map_cons, List.sum_cons, Nat.mul_add] at h2 ⊢
    omega

/-- no uncovered change, nothing queued, nothing on its way to or through the host (tokens and values are arbitrary) -/
def Calm (s : State V) : Prop :=
  (s.host.dirty && !s.host.token) = false ∧ s.host.queue = [] ∧ s.hdefer = [] ∧
  ∀ c ∈ s.clients, (c.p.dirty && !c.p.token) = false ∧ c.p.queue = [] ∧ c.up = []

theorem gpot_calm (s : State V) (h : Calm s) : gpot s = s.sent := by
  obtain ⟨h1, h2, h3, h4⟩ := h
  have hz : total (cwt s.clients.length) s.clients = 0 := by
    apply total_zero
    intro c hc
    obtain ⟨a, b, d⟩ := h4 c hc
    simp [cwt, unc, a, b, d]
  simp [gpot, unc, h1, h2, h3, hz]

theorem clean_calm (x : Option V) (s : State V) (h : Clean x s) : Calm s := by
  obtain ⟨_, hd, _, hq, hdf, hc⟩ := h
  refine ⟨by simp [hd], hq, hdf, fun c hcm => ?_⟩
  obtain ⟨_, cd, _, cq, _, cu, _⟩ := hc c hcm
  exact ⟨by simp [cd], cq, cu⟩

theorem sent_le_gpot (s : State V) : s.sent ≤ gpot s := by
  unfold gpot; omega

/-- **bounded work, components and parent links, any writers.** From a calm state, any schedule with writes by any peers —
conflicting or not — sends at most `N + 1` messages per application write. -/
theorem comp_traffic_bounded (pt : V → V → V) (s : State V) (as : List (Act V)) (hn : (s.clients.map (·.id)).Nodup)
    (hc : Calm s) : (run ra false pt s as).sent ≤ s.sent + (s.clients.length + 1) * wops as := by
  have := (gpot_run (ra := ra) pt s as hn).2
  rw [gpot_calm s hc] at this
  exact Nat.le_trans (sent_le_gpot _) this

/-- **self-quenching**: without application writes only what is already owed is sent, from any state -/
theorem comp_quiet (pt : V → V → V) (s : State V) (as : List (Act V)) (hn : (s.clients.map (·.id)).Nodup)
    (h0 : wops as = 0) : (run ra false pt s as).sent ≤ gpot s := by
  have := (gpot_run (ra := ra) pt s as hn).2
  rw [h0] at this
  exact Nat.le_trans (sent_le_gpot _) (by simpa using this)

end Comp
end BevySync
