import BevySyncModel.Proofs.EntDel
/-! Bounded work in the entity slice (C09): whatever the schedule and whichever peers act, the messages of one uuid's
life are paid for by application operations — each `SyncMark` insertion and each application despawn costs at most
`N + 1` messages (`N` clients), and frames without application operations only spend what is already owed.

Potential: messages sent so far, plus `N + 1` for every peer that still has an announcement to make (`marked`: an
`EntitySpawn`; `noticed`: an `EntityDelete`), plus `N` for every message still on its way up to the host (the host relays
each to at most `N` clients). No handler raises it: receiving a spawn or a delete never leaves the receiver with
something to announce. -/
namespace BevySync
namespace Ent

def owes (W : Nat) (p : Peer) : Nat := (if p.marked then W else 0) + (if noticed p then W else 0)

def cpot (N : Nat) (c : Client) : Nat := owes (N + 1) c.p + N * c.up.length

def csum (N : Nat) (cs : List Client) : Nat := (cs.map (cpot N)).sum

def pot (s : State) : Nat :=
  s.sent + owes (s.clients.length + 1) s.host + csum s.clients.length s.clients

/-- application operations: a `SyncMark` insertion or a despawn -/
def cost : Act → Nat
  | .markH | .despawnH | .markC _ | .despawnC _ => 1
  | _ => 0

def ops (as : List Act) : Nat := (as.map cost).sum

theorem length_step (s : State) (a : Act) : (step s a).clients.length = s.clients.length := by
  have := congrArg List.length (ids_step s a)
  simpa using this

/-! ## sums over the client list -/

theorem csum_map_le (N : Nat) (g : Client → Client) (cs : List Client) (h : ∀ c ∈ cs, cpot N (g c) ≤ cpot N c) :
    csum N (cs.map g) ≤ csum N cs := by
  induction cs with
  | nil => exact Nat.le_refl _
  | cons c cs ih =>
    have h1 := h c (by simp)
    have h2 := ih (fun x hx => h x (by simp [hx]))
    simp only [csum, List.map_cons, List.sum_cons] at h2 ⊢
    omega

theorem csum_onClient_le (N i : Nat) (f : Client → Client) (cs : List Client) (h : ∀ c ∈ cs, cpot N (f c) ≤ cpot N c) :
    csum N (onClient i f cs) ≤ csum N cs := by
  unfold onClient
  apply csum_map_le
  intro c hc
  split
  · exact h c hc
  · exact Nat.le_refl _

theorem onClient_absent (i : Nat) (f : Client → Client) (cs : List Client) (h : ∀ c ∈ cs, c.id ≠ i) :
    onClient i f cs = cs := by
  unfold onClient
  conv => rhs; rw [← List.map_id cs]
  apply List.map_congr_left
  intro c hc
  simp only [h c hc, if_false, id]

/-- with distinct ids at most one client is touched -/
theorem csum_onClient_add (N i d : Nat) (f : Client → Client) (cs : List Client) (hn : (cs.map (·.id)).Nodup)
    (h : ∀ c ∈ cs, cpot N (f c) ≤ cpot N c + d) : csum N (onClient i f cs) ≤ csum N cs + d := by
  induction cs with
  | nil => exact Nat.le_add_right _ _
  | cons c cs ih =>
    simp only [List.map_cons, List.nodup_cons, List.mem_map, not_exists, not_and] at hn
    obtain ⟨hnot, hn'⟩ := hn
    by_cases hc : c.id = i
    · have habs : onClient i f cs = cs := onClient_absent i f cs (fun x hx hxi => hnot x hx (by rw [hxi, hc]))
      have h1 := h c (by simp)
      have e : onClient i f (c :: cs) = f c :: onClient i f cs := by simp [onClient, hc]
      rw [e, habs]
      simp only [csum, List.map_cons, List.sum_cons]
      omega
    · have h2 := ih hn' (fun x hx => h x (by simp [hx]))
      have e : onClient i f (c :: cs) = c :: onClient i f cs := by simp [onClient, hc]
      rw [e]
      simp only [csum, List.map_cons, List.sum_cons] at h2 ⊢
      omega

/-- the client `findClient` returns pays `d` -/
theorem csum_onClient_pay (N i d : Nat) (f : Client → Client) (cs : List Client) (c0 : Client)
    (hf : findClient i cs = some c0) (h : ∀ c ∈ cs, cpot N (f c) ≤ cpot N c) (h0 : cpot N (f c0) + d ≤ cpot N c0) :
    csum N (onClient i f cs) + d ≤ csum N cs := by
  induction cs with
  | nil => simp [findClient] at hf
  | cons c cs ih =>
    by_cases hc : c.id = i
    · have hc0 : c0 = c := by
        simp only [findClient, List.find?_cons, hc, decide_true] at hf
        exact (Option.some.inj hf).symm
      subst hc0
      have hrest := csum_onClient_le N i f cs (fun x hx => h x (by simp [hx]))
      have e : onClient i f (c0 :: cs) = f c0 :: onClient i f cs := by simp [onClient, hc]
      rw [e]
      simp only [csum, List.map_cons, List.sum_cons] at hrest ⊢
      omega
    · have hf' : findClient i cs = some c0 := by
        simpa only [findClient, List.find?_cons, hc, decide_false] using hf
      have h2 := ih hf' (fun x hx => h x (by simp [hx]))
      have e : onClient i f (c :: cs) = c :: onClient i f cs := by simp [onClient, hc]
      rw [e]
      simp only [csum, List.map_cons, List.sum_cons] at h2 ⊢
      omega

theorem findClient_none_absent {i : Nat} {cs : List Client} (h : findClient i cs = none) : ∀ c ∈ cs, c.id ≠ i := by
  intro c hc hci
  unfold findClient at h
  have := List.find?_eq_none.mp h c hc
  simp [hci] at this

theorem filter_length_le (p : Client → Bool) (cs : List Client) : (cs.filter p).length ≤ cs.length :=
  List.length_filter_le p cs

/-! ## the handlers never leave the receiver owing an announcement -/

theorem owes_mark (W : Nat) (p : Peer) : owes W { p with marked := true } ≤ owes W p + W := by
  rcases p with ⟨m, k, t, w⟩
  cases m <;> cases t <;> by_cases hk : k = 0 <;> simp [owes, noticed, hk]

theorem owes_created (W : Nat) (p : Peer) (h : p.marked = true) : owes W (created p) + W ≤ owes W p := by
  rcases p with ⟨m, k, t, w⟩
  simp only at h
  subst h
  cases t <;> by_cases hk : k = 0 <;> simp [owes, noticed, created, hk]

theorem owes_despawn (W : Nat) (p : Peer) : owes W (despawn p) ≤ owes W p + W := by
  rcases p with ⟨m, k, t, w⟩
  cases m <;> cases t <;> rcases k with _ | _ | k <;> simp [owes, noticed, despawn]

theorem owes_removed (W : Nat) (p : Peer) (h : noticed p = true) : owes W { p with tracked := false } + W ≤ owes W p := by
  rcases p with ⟨m, k, t, w⟩
  cases m <;> cases t <;> by_cases hk : k = 0 <;> simp_all [owes, noticed]

theorem owes_clientRecv (W : Nat) (p : Peer) (m : M) : owes W (clientRecv p m) ≤ owes W p := by
  rcases p with ⟨mk, k, t, w⟩
  cases m <;> cases mk <;> cases t <;> rcases k with _ | _ | k <;>
    simp [owes, noticed, clientRecv]

theorem owes_hostRecv (W : Nat) (p : Peer) (m : M) : owes W (hostRecv p m).1 ≤ owes W p := by
  rcases p with ⟨mk, k, t, w⟩
  cases m <;> cases mk <;> cases t <;> rcases k with _ | _ | k <;>
    simp [owes, noticed, hostRecv]
theorem owes_clientFold (W : Nat) (l : List M) (p : Peer) : owes W (l.foldl clientRecv p) ≤ owes W p := by
  induction l generalizing p with
  | nil => exact Nat.le_refl _
  | cons m l ih => exact Nat.le_trans (ih _) (owes_clientRecv W p m)

theorem cpot_relay_eq (N i : Nat) (m : M) (cs : List Client) : csum N (relay i m cs) = csum N cs := by
  unfold relay csum
  rw [List.map_map]
  congr 1
  apply List.map_congr_left
  intro c _
  simp only [Function.comp]
  split <;> rfl

theorem cpot_broadcast_eq (N : Nat) (m : M) (cs : List Client) : csum N (broadcast m cs) = csum N cs := by
  unfold broadcast csum
  rw [List.map_map]
  congr 1
  apply List.map_congr_left
  intro c _
  simp only [Function.comp]
  split <;> rfl

theorem length_relay (i : Nat) (m : M) (cs : List Client) : (relay i m cs).length = cs.length := by
  simp [relay]

theorem length_broadcast (m : M) (cs : List Client) : (broadcast m cs).length = cs.length := by
  simp [broadcast]

/-- one message handled by the host: at most `N` relays, nothing new owed -/
theorem pot_hostOne (i : Nat) (t : State) (m : M) :
    (hostOne i t m).clients.length = t.clients.length ∧ pot (hostOne i t m) ≤ pot t + t.clients.length := by
  have hl : (hostOne i t m).clients.length = t.clients.length := by
    simp only [hostOne]; exact length_relay _ _ _
  refine ⟨hl, ?_⟩
  have ho := owes_hostRecv (t.clients.length + 1) t.host m
  have hf := filter_length_le (fun c => c.connected && c.id != i) t.clients
  have hs : csum t.clients.length (hostOne i t m).clients = csum t.clients.length t.clients := by
    simp only [hostOne]; exact cpot_relay_eq _ _ _ _
  have hh : (hostOne i t m).host = (hostRecv t.host m).1 := rfl
  have hsent : (hostOne i t m).sent = t.sent + (t.clients.filter (fun c => c.connected && c.id != i)).length := rfl
  unfold pot
  rw [hl, hs, hh, hsent]
  omega

theorem pot_hostFold (i : Nat) (l : List M) (t : State) :
    (l.foldl (hostOne i) t).clients.length = t.clients.length ∧
      pot (l.foldl (hostOne i) t) ≤ pot t + t.clients.length * l.length := by
  induction l generalizing t with
  | nil => exact ⟨rfl, by simp⟩
  | cons m l ih =>
    obtain ⟨h1, h2⟩ := pot_hostOne i t m
    obtain ⟨h3, h4⟩ := ih (hostOne i t m)
    simp only [List.foldl_cons, List.length_cons]
    refine ⟨by rw [h3, h1], ?_⟩
    rw [h1] at h4
    rw [Nat.mul_succ]
    omega

/-! ## the client-side transitions by name -/

def cMark (c : Client) : Client := { c with p := { c.p with marked := true } }
def cCreated (c : Client) : Client :=
  if c.connected && c.p.marked then { c with p := created c.p, up := c.up ++ [.spawn] } else c
def cDespawn (c : Client) : Client := { c with p := despawn c.p }
def cRemoved (c : Client) : Client :=
  if c.connected && noticed c.p then { c with p := { c.p with tracked := false }, up := c.up ++ [.delete] } else c
def cPollC (n : Nat) (c : Client) : Client :=
  if c.connected then { c with p := (c.down.take n).foldl clientRecv c.p, down := c.down.drop n } else c
def cLeave (c : Client) : Client := { c with connected := false, down := [] }

/-- one message if the client `findClient` returns meets `cond` -/
def paid (cond : Client → Bool) (i : Nat) (cs : List Client) : Nat :=
  match findClient i cs with
  | some c => if cond c then 1 else 0
  | none => 0

theorem step_markC (s : State) (i : Nat) : step s (.markC i) = { s with clients := onClient i cMark s.clients } := rfl
theorem step_createdC (s : State) (i : Nat) : step s (.createdC i) =
    { s with clients := onClient i cCreated s.clients,
             sent := s.sent + paid (fun c => c.connected && c.p.marked) i s.clients } := rfl
theorem step_despawnC (s : State) (i : Nat) : step s (.despawnC i) =
    { s with clients := onClient i cDespawn s.clients,
             despawns := s.despawns + (match findClient i s.clients with | some c => if c.p.count > 0 then 1 else 0 | none => 0) } := rfl
theorem step_removedC (s : State) (i : Nat) : step s (.removedC i) =
    { s with clients := onClient i cRemoved s.clients,
             sent := s.sent + paid (fun c => c.connected && noticed c.p) i s.clients } := rfl
theorem step_pollC (s : State) (i n : Nat) : step s (.pollC i n) = { s with clients := onClient i (cPollC n) s.clients } := rfl
theorem step_leave (s : State) (i : Nat) : step s (.leave i) = { s with clients := onClient i cLeave s.clients } := rfl

/-! ## one step -/

theorem pot_step (s : State) (a : Act) (hn : (s.clients.map (·.id)).Nodup) :
    pot (step s a) ≤ pot s + (s.clients.length + 1) * cost a := by
  cases a with
  | markH =>
    have := owes_mark (s.clients.length + 1) s.host
    simp only [pot, step, cost, Nat.mul_one]
    omega
  | createdH =>
    simp only [step]
    split
    · rename_i hm
      have hf := filter_length_le (·.connected) s.clients
      have := owes_created (s.clients.length + 1) s.host hm
      simp only [pot, length_broadcast, cpot_broadcast_eq, cost, Nat.mul_zero, Nat.add_zero]
      omega
    · simp [cost]
  | despawnH =>
    have := owes_despawn (s.clients.length + 1) s.host
    simp only [pot, step, cost, Nat.mul_one]
    omega
  | removedH =>
    simp only [step]
    split
    · rename_i hnz
      have hf := filter_length_le (·.connected) s.clients
      have := owes_removed (s.clients.length + 1) s.host hnz
      simp only [pot, length_broadcast, cpot_broadcast_eq, cost, Nat.mul_zero, Nat.add_zero]
      omega
    · simp [cost]
  | pollH i n =>
    rw [step_pollH]
    simp only [cost, Nat.mul_zero, Nat.add_zero]
    cases hfc : findClient i s.clients with
    | none => exact Nat.le_refl _
    | some c0 =>
      dsimp only
      have hl0 : (onClient i (fun c => { c with up := c.up.drop n }) s.clients).length = s.clients.length := by
        simp [onClient]
      obtain ⟨_, hfold⟩ := pot_hostFold i (c0.up.take n)
        { s with clients := onClient i (fun c => { c with up := c.up.drop n }) s.clients }
      refine Nat.le_trans hfold ?_
      have hpay := csum_onClient_pay s.clients.length i (s.clients.length * (c0.up.take n).length)
        (fun c => { c with up := c.up.drop n }) s.clients c0 hfc
        (by
          intro c _
          simp only [cpot, List.length_drop]
          exact Nat.add_le_add_left (Nat.mul_le_mul_left _ (Nat.sub_le _ _)) _)
        (by
          simp only [cpot]
          have e : (c0.up.drop n).length + (c0.up.take n).length = c0.up.length := by
            simp only [List.length_drop, List.length_take]; omega
          rw [← e, Nat.mul_add]
          omega)
      simp only [pot, hl0]
      omega
  | markC i =>
    rw [step_markC]
    simp only [pot, cost, Nat.mul_one]
    have hl0 : (onClient i cMark s.clients).length = s.clients.length := by simp [onClient]
    rw [hl0]
    have := csum_onClient_add s.clients.length i (s.clients.length + 1) cMark s.clients hn
      (by
        intro c _
        have := owes_mark (s.clients.length + 1) c.p
        simp only [cpot, cMark]
        omega)
    omega
  | createdC i =>
    rw [step_createdC]
    simp only [pot, cost, Nat.mul_zero, Nat.add_zero]
    have hl0 : (onClient i cCreated s.clients).length = s.clients.length := by simp [onClient]
    rw [hl0]
    have hle : ∀ c : Client, cpot s.clients.length (cCreated c) + (if c.connected && c.p.marked then 1 else 0) ≤
        cpot s.clients.length c := by
      intro c
      unfold cCreated
      by_cases hcond : (c.connected && c.p.marked) = true
      · have hm : c.p.marked = true := by simp_all
        have := owes_created (s.clients.length + 1) c.p hm
        simp only [hcond, if_true, cpot, List.length_append, List.length_singleton, Nat.mul_succ]
        omega
      · simp only [hcond, if_false, Bool.false_eq_true]; omega
    cases hfc : findClient i s.clients with
    | none =>
      rw [onClient_absent i cCreated s.clients (findClient_none_absent hfc)]
      simp only [paid, hfc]
      omega
    | some c0 =>
      have := csum_onClient_pay s.clients.length i (if c0.connected && c0.p.marked then 1 else 0) cCreated s.clients c0 hfc
        (fun c _ => Nat.le_trans (Nat.le_add_right _ _) (hle c)) (hle c0)
      simp only [paid, hfc]
      omega
  | despawnC i =>
    rw [step_despawnC]
    simp only [pot, cost, Nat.mul_one]
    have hl0 : (onClient i cDespawn s.clients).length = s.clients.length := by simp [onClient]
    rw [hl0]
    have := csum_onClient_add s.clients.length i (s.clients.length + 1) cDespawn s.clients hn
      (by
        intro c _
        have := owes_despawn (s.clients.length + 1) c.p
        simp only [cpot, cDespawn]
        omega)
    omega
  | removedC i =>
    rw [step_removedC]
    simp only [pot, cost, Nat.mul_zero, Nat.add_zero]
    have hl0 : (onClient i cRemoved s.clients).length = s.clients.length := by simp [onClient]
    rw [hl0]
    have hle : ∀ c : Client, cpot s.clients.length (cRemoved c) + (if c.connected && noticed c.p then 1 else 0) ≤
        cpot s.clients.length c := by
      intro c
      unfold cRemoved
      by_cases hcond : (c.connected && noticed c.p) = true
      · have hm : noticed c.p = true := by simp_all
        have := owes_removed (s.clients.length + 1) c.p hm
        simp only [hcond, if_true, cpot, List.length_append, List.length_singleton, Nat.mul_succ]
        omega
      · simp only [hcond, if_false, Bool.false_eq_true]; omega
    cases hfc : findClient i s.clients with
    | none =>
      rw [onClient_absent i cRemoved s.clients (findClient_none_absent hfc)]
      simp only [paid, hfc]
      omega
    | some c0 =>
      have := csum_onClient_pay s.clients.length i (if c0.connected && noticed c0.p then 1 else 0) cRemoved s.clients c0 hfc
        (fun c _ => Nat.le_trans (Nat.le_add_right _ _) (hle c)) (hle c0)
      simp only [paid, hfc]
      omega
  | pollC i n =>
    rw [step_pollC]
    simp only [pot, cost, Nat.mul_zero, Nat.add_zero]
    have hl0 : (onClient i (cPollC n) s.clients).length = s.clients.length := by simp [onClient]
    rw [hl0]
    have := csum_onClient_le s.clients.length i (cPollC n) s.clients
      (by
        intro c _
        unfold cPollC
        split
        · simp only [cpot]
          exact Nat.add_le_add_right (owes_clientFold _ _ _) _
        · exact Nat.le_refl _)
    omega
  | leave i =>
    rw [step_leave]
    simp only [pot, cost, Nat.mul_zero, Nat.add_zero]
    have hl0 : (onClient i cLeave s.clients).length = s.clients.length := by simp [onClient]
    rw [hl0]
    have := csum_onClient_le s.clients.length i cLeave s.clients (by intro c _; exact Nat.le_refl _)
    omega

theorem pot_run (s : State) (as : List Act) (hn : (s.clients.map (·.id)).Nodup) :
    (run s as).clients.length = s.clients.length ∧ pot (run s as) ≤ pot s + (s.clients.length + 1) * ops as := by
  induction as generalizing s with
  | nil => exact ⟨rfl, by simp [run, ops]⟩
  | cons a as ih =>
    have hn' : ((step s a).clients.map (·.id)).Nodup := by rw [ids_step]; exact hn
    obtain ⟨h1, h2⟩ := ih (step s a) hn'
    have h3 := pot_step s a hn
    have hl := length_step s a
    simp only [run, List.foldl_cons] at h1 h2 ⊢
    refine ⟨by rw [h1, hl], ?_⟩
    rw [hl] at h2
    simp only [ops, List.map_cons, List.sum_cons, Nat.mul_add] at h2 ⊢
    omega

/-- nobody has an announcement to make and nothing is on its way to the host -/
def Calm (s : State) : Prop :=
  s.host.marked = false ∧ noticed s.host = false ∧
  ∀ c ∈ s.clients, c.p.marked = false ∧ noticed c.p = false ∧ c.up = []

theorem pot_calm (s : State) (h : Calm s) : pot s = s.sent := by
  obtain ⟨h1, h2, h3⟩ := h
  have : csum s.clients.length s.clients = 0 := by
    unfold csum
    have : ∀ cs : List Client, (∀ c ∈ cs, c.p.marked = false ∧ noticed c.p = false ∧ c.up = []) →
        (cs.map (cpot s.clients.length)).sum = 0 := by
      intro cs
      induction cs with
      | nil => intro _; rfl
      | cons c cs ih =>
        intro h
        obtain ⟨a, b, d⟩ := h c (by simp)
        have := ih (fun x hx => h x (by simp [hx]))
        simp only [List.map_cons, List.sum_cons, this, cpot, owes, a, b, d]
        simp
    exact this s.clients h3
  simp only [pot, owes, h1, h2, this]
  simp

theorem sent_le_pot (s : State) : s.sent ≤ pot s := by
  unfold pot; omega

/-- **bounded work, entity life.** From a calm state, any schedule of any peers' systems sends at most `N + 1` messages per
application operation (`SyncMark` insertion or despawn) on that uuid. -/
theorem ent_traffic_bounded (s : State) (as : List Act) (hn : (s.clients.map (·.id)).Nodup) (hc : Calm s) :
    (run s as).sent ≤ s.sent + (s.clients.length + 1) * ops as := by
  have := (pot_run s as hn).2
  rw [pot_calm s hc] at this
  exact Nat.le_trans (sent_le_pot _) this

/-- **self-quenching.** Frames without application operations can only send what is already owed: from a calm state
nothing at all, from any state at most the potential. -/
theorem ent_quiet (s : State) (as : List Act) (hn : (s.clients.map (·.id)).Nodup) (h0 : ops as = 0) :
    (run s as).sent ≤ pot s := by
  have := (pot_run s as hn).2
  rw [h0] at this
  exact Nat.le_trans (sent_le_pot _) (by simpa using this)

end Ent
end BevySync
