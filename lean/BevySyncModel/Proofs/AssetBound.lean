import BevySyncModel.Proofs.Asset
/-! Bounded traffic for uuid assets of the download classes (C09): every publication costs at most one announcement per
other peer — `N` messages when the host publishes, one message up and `N − 1` relays when a client does; readers (and the
host of a client-writer epoch) announce nothing. -/
namespace BevySync
namespace Asset

def isPublish : Act → Bool
  | .publishH _ | .publishC _ _ => true
  | _ => false

def publishes (as : List Act) : Nat := (as.filter isPublish).length

theorem clients_length_step (s : State) (a : Act) : (step true false s a).clients.length = s.clients.length := by
  have := congrArg List.length (ids_step true false s a)
  simpa using this

/-! ## the host publishes -/

def hCost (s : State) : Nat := s.sent + s.clients.length * s.host.events

theorem hcost_step (s : State) (a : Act) (hi : HInv s) (ha : HostWrites a) :
    hCost (step true false s a) ≤ hCost s + s.clients.length * (isPublish a).toNat := by
  obtain ⟨⟨wt, wj, ws, wc, we⟩, hc⟩ := hi
  have hl := clients_length_step s a
  unfold hCost
  rw [hl]
  generalize hN : s.clients.length = N at *
  cases a with
  | publishH v =>
    simp only [step, publish, isPublish, Bool.toNat_true, Nat.mul_add, Nat.mul_one]
    omega
  | reactH =>
    by_cases h0 : s.host.events = 0
    · have e : react s.host = (s.host, false) := by simp [react, h0]
      simp only [step, e, Bool.false_eq_true, if_false, isPublish, Bool.toNat_false, Nat.mul_zero, Nat.add_zero]
      exact Nat.le_refl _
    · have e : react s.host = ({ s.host with events := s.host.events - 1, served := s.host.content }, true) := by
        simp [react, h0, wt]
      simp only [step, e, if_true, hN, isPublish, Bool.toNat_false, Nat.mul_zero, Nat.add_zero]
      have : N * (s.host.events - 1) + N = N * s.host.events := by
        rw [← Nat.mul_succ]; congr 1; omega
      omega
  | pollH i =>
    cases hf : findClient i s.clients with
    | none => simp only [step, hf, isPublish, Bool.toNat_false, Nat.mul_zero, Nat.add_zero]; exact Nat.le_refl _
    | some c =>
      have hup : c.up = [] := (hc c (findClient_spec hf).1).1
      simp only [step, hf, hup, isPublish, Bool.toNat_false, Nat.mul_zero, Nat.add_zero]; exact Nat.le_refl _
  | fetchH =>
    have e : fetch s s.host = s.host := by simp [fetch, wj]
    simp only [step, e, isPublish, Bool.toNat_false, Nat.mul_zero, Nat.add_zero]; exact Nat.le_refl _
  | processH =>
    have e : process true s.host = s.host := by simp [process, ws]
    simp only [step, e, isPublish, Bool.toNat_false, Nat.mul_zero, Nat.add_zero]; exact Nat.le_refl _
  | publishC i v => exact absurd ha (by simp [HostWrites])
  | reactC i =>
    cases hf : findClient i s.clients with
    | none =>
      simp only [step, hf, isPublish, Bool.toNat_false, Nat.mul_zero, Nat.add_zero]; exact Nat.le_refl _
    | some c =>
      have hr := (react_reader c.p (hc c (findClient_spec hf).1).2.1).1
      simp only [step, hf, hr, Bool.false_eq_true, if_false, isPublish, Bool.toNat_false, Nat.mul_zero, Nat.add_zero]
      exact Nat.le_refl _
  | pollC i => simp only [step, isPublish, Bool.toNat_false, Nat.mul_zero, Nat.add_zero]; exact Nat.le_refl _
  | fetchC i => simp only [step, isPublish, Bool.toNat_false, Nat.mul_zero, Nat.add_zero]; exact Nat.le_refl _
  | processC i => simp only [step, isPublish, Bool.toNat_false, Nat.mul_zero, Nat.add_zero]; exact Nat.le_refl _
  | snapshotH i =>
    simp only [step]
    split
    · simp only [snapServe, isPublish, Bool.toNat_false, Nat.mul_zero, Nat.add_zero]
      split <;> exact Nat.le_refl _
    · simp [isPublish]

theorem hcost_run (s : State) (as : List Act) (hi : HInv s) (ha : ∀ a ∈ as, HostWrites a) :
    hCost (run true false s as) ≤ hCost s + s.clients.length * publishes as := by
  induction as generalizing s with
  | nil => simp [run, publishes]
  | cons a as ih =>
    have ha1 := ha a (by simp)
    have h1 := hcost_step s a hi ha1
    have h2 := ih (step true false s a) (hinv_step s a hi ha1) (fun b hb => ha b (by simp [hb]))
    rw [clients_length_step] at h2
    simp only [run, List.foldl_cons] at h2 ⊢
    have hw : publishes (a :: as) = (isPublish a).toNat + publishes as := by
      simp only [publishes, List.filter_cons]
      cases isPublish a <;> simp <;> omega
    rw [hw, Nat.mul_add]
    omega

/-- **bounded work, the host publishes**: from a settled state, an epoch (first publication included) sends at most
`N` messages per publication, whatever the schedule; no reader ever announces -/
theorem host_epoch_bounded (x : Option Nat) (s : State) (v : Nat) (as : List Act) (hs : Settled x s)
    (ha : ∀ a ∈ as, HostWrites a) :
    (run true false (step true false s (.publishH v)) as).sent ≤ s.sent + s.clients.length * (1 + publishes as) := by
  have h0 := hinv_start x s v hs
  have h := hcost_run _ as h0 ha
  have hl : (step true false s (.publishH v)).clients.length = s.clients.length := clients_length_step s _
  have hc0 : hCost (step true false s (.publishH v)) = s.sent + s.clients.length * 1 := by
    simp [hCost, step, publish, hs.1.2.1]
  rw [hl, hc0] at h
  have : (run true false (step true false s (.publishH v)) as).sent ≤ hCost (run true false (step true false s (.publishH v)) as) := by
    unfold hCost; omega
  rw [Nat.mul_add]
  omega

/-! ## a client publishes -/

def readers (w : Nat) (s : State) : Nat := ((s.clients.map (·.id)).filter (fun i => i ≠ w)).length

theorem readers_step (w : Nat) (s : State) (a : Act) : readers w (step true false s a) = readers w s := by
  unfold readers; rw [ids_step]

theorem filter_ne_length (w : Nat) (cs : List Client) :
    (cs.filter (fun c => c.id ≠ w)).length = ((cs.map (·.id)).filter (fun i => i ≠ w)).length := by
  rw [List.filter_map]
  simp only [List.length_map]
  rfl

/-- messages sent so far plus what the writer still owes: an announcement on its way to the host will be relayed to each
reader, an unhandled publication costs one message more -/
def cCost (R : Nat) (s : State) (cw : Client) : Nat := s.sent + R * cw.up.length + (R + 1) * cw.p.events

def CBound (w R B : Nat) (s : State) : Prop :=
  (s.clients.map (·.id)).Nodup ∧ CInv w s ∧ readers w s = R ∧ ∀ cw ∈ s.clients, cw.id = w → cCost R s cw ≤ B

theorem forall_map_w {w : Nat} {g : Client → Client} (hid : ∀ c, (g c).id = c.id) {cs : List Client}
    {P P' : Client → Prop} (h : ∀ cw ∈ cs, cw.id = w → P cw) (hP : ∀ cw ∈ cs, cw.id = w → P cw → P' (g cw)) :
    ∀ cw' ∈ cs.map g, cw'.id = w → P' cw' := by
  intro cw' hcw' hw'
  obtain ⟨cw, hcw, rfl⟩ := List.mem_map.mp hcw'
  rw [hid] at hw'
  exact hP cw hcw hw' (h cw hcw hw')

theorem cbound_step (w : Nat) (hw0 : w ≠ 0) (R B : Nat) (s : State) (a : Act) (hp : ∃ cw ∈ s.clients, cw.id = w)
    (hi : CBound w R B s) (ha : ClientWrites w a) :
    CBound w R (B + (R + 1) * (isPublish a).toNat) (step true false s a) := by
  obtain ⟨hn, hinv, hRdef, hb⟩ := hi
  refine ⟨by rw [ids_step]; exact hn, cinv_step w hw0 s a hn hp hinv ha, by rw [readers_step]; exact hRdef, ?_⟩
  obtain ⟨ht, hj, hc⟩ := hinv
  cases a with
  | publishH v => exact absurd ha (by simp [ClientWrites])
  | snapshotH i => exact absurd ha (by simp [ClientWrites])
  | reactH =>
    have hr := (react_reader s.host ht).1
    simp only [step, hr, Bool.false_eq_true, if_false]
    intro cw hcw hw
    have := hb cw hcw hw
    simp only [cCost] at this ⊢
    simpa [isPublish] using this
  | fetchH =>
    simp only [step]
    intro cw hcw hw
    have := hb cw hcw hw
    simp only [cCost] at this ⊢
    simpa [isPublish] using this
  | processH =>
    simp only [step]
    intro cw hcw hw
    have := hb cw hcw hw
    simp only [cCost] at this ⊢
    simpa [isPublish] using this
  | pollH i =>
    cases hf : findClient i s.clients with
    | none =>
      simp only [step, hf]
      intro cw hcw hw
      have := hb cw hcw hw
      simp only [cCost] at this ⊢
      simpa [isPublish] using this
    | some ci =>
      obtain ⟨hcim, hciid⟩ := findClient_spec hf
      cases hup : ci.up with
      | nil =>
        simp only [step, hf, hup]
        intro cw hcw hw
        have := hb cw hcw hw
        simp only [cCost] at this ⊢
        simpa [isPublish] using this
      | cons o rest =>
        obtain ⟨cw0, hcw0, hw0'⟩ := hp
        have hiw : ci.id = w := by
          by_cases h : ci.id = w
          · exact h
          · have := ((hc cw0 hcw0 hw0').2 ci hcim h).1
            rw [hup] at this; cases this
        have hi' : i = w := by rw [← hciid]; exact hiw
        have hfl : (s.clients.filter (fun c => c.id ≠ i)).length = R := by
          rw [filter_ne_length, hi']; exact hRdef
        simp only [step, hf, hup]
        refine forall_map_w (P := fun cw => cCost R s cw ≤ B) ?_ hb ?_
        · intro c; split <;> rfl
        · intro cw hcw hw hcost
          have hcweq : cw = ci := by
            have h1 := findClient_of_mem hn hcim hiw
            have h2 := findClient_of_mem hn hcw hw
            rw [h1] at h2; exact (Option.some.inj h2).symm
          rw [if_pos (by rw [hw, hi'])]
          simp only [cCost, hcweq, hup, List.length_cons] at hcost
          simp only [cCost, hfl, isPublish, Bool.toNat_false, Nat.mul_zero, Nat.add_zero, hcweq]
          simp only [Nat.mul_add, Nat.add_mul, Nat.mul_one, Nat.one_mul] at hcost ⊢
          omega
  | publishC i v =>
    have hi' : i = w := ha
    simp only [step]
    unfold onClient
    refine forall_map_w (P := fun cw => cCost R s cw ≤ B) ?_ hb ?_
    · intro c; split <;> rfl
    · intro cw hcw hw hcost
      rw [if_pos (by rw [hw, hi'])]
      simp only [cCost] at hcost
      simp only [cCost, cPublish, publish, isPublish, Bool.toNat_true]
      simp only [Nat.mul_add, Nat.add_mul, Nat.mul_one, Nat.one_mul] at hcost ⊢
      omega
  | reactC i =>
    cases hf : findClient i s.clients with
    | none =>
      simp only [step, hf]
      unfold onClient
      refine forall_map_w (P := fun cw => cCost R s cw ≤ B) ?_ hb ?_
      · intro c; split
        · unfold cReact; split <;> rfl
        · rfl
      · intro cw hcw hw hcost
        have hne : cw.id ≠ i := by
          intro h
          unfold findClient at hf
          have := List.find?_eq_none.mp hf cw hcw
          simp [h] at this
        rw [if_neg hne]
        simp only [cCost] at hcost ⊢
        simpa [isPublish] using hcost
    | some ci =>
      obtain ⟨hcim, hciid⟩ := findClient_spec hf
      have hidr : ∀ c : Client, (if c.id = i then cReact c else c).id = c.id := by
        intro c; split
        · unfold cReact; split <;> rfl
        · rfl
      by_cases hiw : i = w
      · -- the writer reacts
        have hciw : ci.id = w := by rw [hciid, hiw]
        obtain ⟨⟨w1, _, _, _, _⟩, _, _, _⟩ := (hc ci hcim hciw).1
        by_cases h0 : ci.p.events = 0
        · have e : react ci.p = (ci.p, false) := by simp [react, h0]
          simp only [step, hf, e, Bool.false_eq_true, if_false, Nat.add_zero]
          unfold onClient
          refine forall_map_w (P := fun cw => cCost R s cw ≤ B) hidr hb ?_
          intro cw hcw hw hcost
          have hcweq : cw = ci := by
            have h1 := findClient_of_mem hn hcim hciw
            have h2 := findClient_of_mem hn hcw hw
            rw [h1] at h2; exact (Option.some.inj h2).symm
          rw [if_pos (by rw [hw, hiw]), hcweq]
          simp only [cReact, e, Bool.false_eq_true, if_false, cCost, isPublish, Bool.toNat_false, Nat.mul_zero, Nat.add_zero]
          rw [hcweq] at hcost
          exact hcost
        · have e : react ci.p = ({ ci.p with events := ci.p.events - 1, served := ci.p.content }, true) := by
            simp [react, h0, w1]
          simp only [step, hf, e, if_true]
          unfold onClient
          refine forall_map_w (P := fun cw => cCost R s cw ≤ B) hidr hb ?_
          intro cw hcw hw hcost
          have hcweq : cw = ci := by
            have h1 := findClient_of_mem hn hcim hciw
            have h2 := findClient_of_mem hn hcw hw
            rw [h1] at h2; exact (Option.some.inj h2).symm
          rw [if_pos (by rw [hw, hiw]), hcweq]
          rw [hcweq] at hcost
          simp only [cCost] at hcost
          simp only [cReact, e, if_true, cCost, isPublish, Bool.toNat_false, Nat.mul_zero, Nat.add_zero, List.length_append,
            List.length_cons, List.length_nil]
          have he : ci.p.events = (ci.p.events - 1) + 1 := by omega
          rw [he] at hcost
          simp only [Nat.mul_add, Nat.add_mul, Nat.mul_one, Nat.one_mul] at hcost ⊢
          omega
      · -- a reader reacts: it never announces
        have hciw : ci.id ≠ w := by rw [hciid]; exact hiw
        obtain ⟨cw0, hcw0, hw0'⟩ := hp
        have hr := (react_reader ci.p ((hc cw0 hcw0 hw0').2 ci hcim hciw).2.1).1
        simp only [step, hf, hr, Bool.false_eq_true, if_false, Nat.add_zero]
        unfold onClient
        refine forall_map_w (P := fun cw => cCost R s cw ≤ B) hidr hb ?_
        intro cw hcw hw hcost
        rw [if_neg (by rw [hw]; exact fun h => hiw h.symm)]
        simp only [cCost] at hcost ⊢
        simpa [isPublish] using hcost
  | pollC i =>
    simp only [step]
    unfold onClient
    refine forall_map_w (P := fun cw => cCost R s cw ≤ B) ?_ hb ?_
    · intro c; split
      · unfold cPoll; split <;> rfl
      · rfl
    · intro cw hcw hw hcost
      obtain ⟨_, c2, _, _⟩ := (hc cw hcw hw).1
      have e : (if cw.id = i then cPoll false cw else cw) = cw := by
        split
        · simp [cPoll, c2]
        · rfl
      rw [e]
      simp only [cCost] at hcost ⊢
      simpa [isPublish] using hcost
  | fetchC i =>
    simp only [step]
    unfold onClient
    refine forall_map_w (P := fun cw => cCost R s cw ≤ B) ?_ hb ?_
    · intro c; split <;> rfl
    · intro cw hcw hw hcost
      obtain ⟨⟨_, w2, _, _, _⟩, _, _, _⟩ := (hc cw hcw hw).1
      have e : (if cw.id = i then cFetch s cw else cw) = cw := by
        split
        · simp [cFetch, fetch, w2]
        · rfl
      rw [e]
      simp only [cCost] at hcost ⊢
      simpa [isPublish] using hcost
  | processC i =>
    simp only [step]
    unfold onClient
    refine forall_map_w (P := fun cw => cCost R s cw ≤ B) ?_ hb ?_
    · intro c; split <;> rfl
    · intro cw hcw hw hcost
      obtain ⟨⟨_, _, w3, _, _⟩, _, _, _⟩ := (hc cw hcw hw).1
      have e : (if cw.id = i then cProcess true cw else cw) = cw := by
        split
        · simp [cProcess, process, w3]
        · rfl
      rw [e]
      simp only [cCost] at hcost ⊢
      simpa [isPublish] using hcost

theorem cbound_run (w : Nat) (hw0 : w ≠ 0) (R B : Nat) (s : State) (as : List Act) (hp : ∃ cw ∈ s.clients, cw.id = w)
    (hi : CBound w R B s) (ha : ∀ a ∈ as, ClientWrites w a) :
    CBound w R (B + (R + 1) * publishes as) (run true false s as) := by
  induction as generalizing s B with
  | nil => simpa [run, publishes] using hi
  | cons a as ih =>
    have ha1 := ha a (by simp)
    have h1 := cbound_step w hw0 R B s a hp hi ha1
    have h2 := ih _ (step true false s a) (present_of_ids (ids_step true false s a) hp) h1 (fun b hb => ha b (by simp [hb]))
    have hw : publishes (a :: as) = (isPublish a).toNat + publishes as := by
      simp only [publishes, List.filter_cons]
      cases isPublish a <;> simp <;> omega
    simp only [run, List.foldl_cons] at h2 ⊢
    rw [hw, Nat.mul_add, ← Nat.add_assoc]
    exact h2

/-- **bounded work, a client publishes**: an epoch (first publication included) sends at most `readers + 1` messages per
publication — one announcement to the host, one relay to each other client — whatever the schedule; neither the host nor a
reader announces anything -/
theorem client_epoch_bounded (w : Nat) (hw0 : w ≠ 0) (x : Option Nat) (s : State) (v : Nat) (as : List Act)
    (hn : (s.clients.map (·.id)).Nodup) (hp : ∃ cw ∈ s.clients, cw.id = w) (hs : Settled x s)
    (ha : ∀ a ∈ as, ClientWrites w a) :
    (run true false (step true false s (.publishC w v)) as).sent ≤ s.sent + (readers w s + 1) * (1 + publishes as) := by
  have hids := ids_step true false s (.publishC w v)
  have hp1 := present_of_ids hids hp
  have hR : readers w (step true false s (.publishC w v)) = readers w s := readers_step w s _
  have h0 : CBound w (readers w s) (s.sent + (readers w s + 1)) (step true false s (.publishC w v)) := by
    refine ⟨by rw [hids]; exact hn, cinv_start w x s v hs, hR, ?_⟩
    simp only [step]
    unfold onClient
    intro cw' hcw' hw'
    obtain ⟨cw, hcw, rfl⟩ := List.mem_map.mp hcw'
    have hidw : cw.id = w := by
      by_cases h : cw.id = w
      · exact h
      · rw [if_neg h] at hw'; exact absurd hw' h
    rw [if_pos hidw]
    obtain ⟨⟨_, c2, _, _, _⟩, c6, _⟩ := hs.2 cw hcw
    simp [cCost, cPublish, publish, c6, c2]
  obtain ⟨_, _, _, hb⟩ := cbound_run w hw0 (readers w s) _ _ as hp1 h0 ha
  obtain ⟨cw, hcw, hcwid⟩ := present_of_ids (ids_run true false _ as) hp1
  have := hb cw hcw hcwid
  simp only [cCost] at this
  rw [Nat.mul_add, Nat.mul_one]
  omega

end Asset
end BevySync
