import BevySyncModel.Slice.Conn
namespace BevySync
namespace Conn

/-! ## server -/

/-- reachable-state invariant: a transport whose insertion has been consumed is reflected in the state
(now or at the next transition); a Connected state (now or pending) has seen the transport -/
def Server.Inv (s : Server) : Prop :=
  (s.transport = true → s.added = false → s.next.getD s.state = true) ∧
  (s.next.getD s.state = true → s.existed = true)

theorem Server.inv_init : Server.Inv {} := by
  constructor <;> intro h <;> simp_all

theorem Server.inv_frame (t a e st : Bool) (n : Option Bool) (ev : Nat)
    (h : Server.Inv ⟨t, a, e, st, n, ev⟩) : Server.Inv (Server.frame ⟨t, a, e, st, n, ev⟩) := by
  rcases n with _ | b
  · cases t <;> cases a <;> cases e <;> cases st <;> simp_all [Server.Inv, Server.frame]
  · cases b <;> cases t <;> cases a <;> cases e <;> cases st <;> simp_all [Server.Inv, Server.frame]

theorem Server.inv_step (s : Server) (o : Op) (h : s.Inv) : (s.step o).Inv := by
  cases o with
  | insert => exact ⟨fun _ ha => by simp [Server.step, Server.insert] at ha, h.2⟩
  | remove => exact ⟨fun ht => by simp [Server.step, Server.remove] at ht, h.2⟩
  | setConnected b => exact h
  | frame => obtain ⟨t, a, e, st, n, ev⟩ := s; exact Server.inv_frame t a e st n ev h

theorem Server.inv_run (s : Server) (ops : List Op) (h : s.Inv) : (ops.foldl Server.step s).Inv := by
  induction ops generalizing s with
  | nil => exact h
  | cons o ops ih => exact ih _ (Server.inv_step s o h)

/-- **ServerState follows hosting within two frames**: if the application does not touch the server
transport for two frames, `ServerState` is `Connected` exactly when the peer is hosting -/
theorem Server.tracks_within_two (s : Server) (h : s.Inv) : s.frame.frame.state = s.transport := by
  obtain ⟨t, a, e, st, n, ev⟩ := s
  rcases n with _ | b
  · cases t <;> cases a <;> cases e <;> cases st <;> simp_all [Server.Inv, Server.frame]
  · cases b <;> cases t <;> cases a <;> cases e <;> cases st <;> simp_all [Server.Inv, Server.frame]

/-- … and it then stays so for as long as the transport is left alone -/
theorem Server.stable (s : Server) (h : s.Inv) (hs : s.state = s.transport) (hn : s.next = none) (ha : s.added = false) :
    s.frame.state = s.transport ∧ s.frame.next = none := by
  obtain ⟨t, a, e, st, n, ev⟩ := s
  simp only at hs hn ha
  subst hs hn ha
  cases st <;> cases e <;> simp_all [Server.Inv, Server.frame]

/-- the host raises `InitialSyncFinished` exactly when it requests the transition to Connected -/
theorem Server.event_iff_connecting (s : Server) :
    s.frame.events = s.events + 1 ↔ s.frame.next = some true := by
  obtain ⟨t, a, e, st, n, ev⟩ := s
  rcases n with _ | b
  · cases t <;> cases a <;> cases e <;> cases st <;> simp [Server.frame]
  · cases b <;> cases t <;> cases a <;> cases e <;> cases st <;> simp [Server.frame]

/-- and never twice for one stretch of hosting: after the frame that raised it, the next frame does not -/
theorem Server.event_not_twice (s : Server) (h : s.frame.next = some true) : s.frame.frame.events = s.frame.events := by
  obtain ⟨t, a, e, st, n, ev⟩ := s
  rcases n with _ | b
  · cases t <;> cases a <;> cases e <;> cases st <;> simp_all [Server.frame]
  · cases b <;> cases t <;> cases a <;> cases e <;> cases st <;> simp_all [Server.frame]

/-! ## client -/

/-- a state other than Disconnected (now or pending) has seen the transport; a transport whose insertion
has been consumed is reflected in the state (now or pending) -/
def Client.Inv (c : Client) : Prop :=
  (c.next.getD c.state ≠ .disconnected → c.existed = true) ∧
  (c.transport = true → c.added = false → c.next.getD c.state ≠ .disconnected) ∧
  (c.added = true → c.renetConnected = false)

theorem Client.inv_init : Client.Inv {} := by
  refine ⟨?_, ?_, ?_⟩ <;> intro h <;> simp_all

theorem Client.inv_frame (c : Client) (h : c.Inv) : (c.frame false).Inv := by
  obtain ⟨t, a, e, st, n, rc, pr, rq⟩ := c
  rcases n with _ | b
  · cases t <;> cases a <;> cases e <;> cases st <;> cases rc <;> simp_all [Client.Inv, Client.frame]
  · cases b <;> cases t <;> cases a <;> cases e <;> cases st <;> cases rc <;> simp_all [Client.Inv, Client.frame]

theorem Client.inv_step (c : Client) (o : Op) (h : c.Inv) : (c.step false false o).Inv := by
  cases o with
  | insert => exact ⟨h.1, fun _ ha => by simp [Client.step, Client.insert] at ha, fun _ => rfl⟩
  | remove => exact ⟨h.1, fun ht => by simp [Client.step, Client.remove] at ht, fun _ => rfl⟩
  | setConnected b =>
    refine ⟨h.1, h.2.1, fun ha => ?_⟩
    have ha' : c.added = true := ha
    simp [Client.step, Client.setConnected, ha']
  | frame => exact Client.inv_frame c h

theorem Client.inv_run (c : Client) (ops : List Op) (h : c.Inv) : (ops.foldl (Client.step false false) c).Inv := by
  induction ops generalizing c with
  | nil => exact h
  | cons o ops ih => exact ih _ (Client.inv_step c o h)

/-- **back to Disconnected within two frames** of the application removing the transport, from whatever
state the client was in (Connecting included) -/
theorem Client.disconnects_within_two (c : Client) (h : c.Inv) (ht : c.transport = false) :
    ((c.frame false).frame false).state = .disconnected := by
  obtain ⟨t, a, e, st, n, rc, pr, rq⟩ := c
  simp only at ht; subst ht
  rcases n with _ | b
  · cases a <;> cases e <;> cases st <;> cases rc <;> simp_all [Client.Inv, Client.frame]
  · cases b <;> cases a <;> cases e <;> cases st <;> cases rc <;> simp_all [Client.Inv, Client.frame]

/-- **never Connected before the transport is connected**: the transition to Connected is only ever
requested by a frame in which the RenetClient reported connected (and a transport was present) … -/
theorem Client.never_early (lg : Bool) (c : Client) (h : (c.frame lg).next = some .connected) :
    c.renetConnected = true ∧ c.transport = true ∧ c.next.getD c.state = .connecting := by
  obtain ⟨t, a, e, st, n, rc, pr, rq⟩ := c
  rcases n with _ | b
  · cases lg <;> cases t <;> cases a <;> cases e <;> cases st <;> cases rc <;> simp_all [Client.frame]
  · cases lg <;> cases b <;> cases t <;> cases a <;> cases e <;> cases st <;> cases rc <;> simp_all [Client.frame]

/-- … and the published state only becomes Connected by applying such a request -/
theorem Client.connected_only_by_request (lg : Bool) (c : Client) (h : (c.frame lg).state = .connected) :
    c.state = .connected ∨ c.next = some .connected := by
  obtain ⟨t, a, e, st, n, rc, pr, rq⟩ := c
  rcases n with _ | b
  · left; simpa [Client.frame] using h
  · right; simp [Client.frame] at h; simp [h]

/-- Disconnected → Connecting → Connected: one frame after the transport is inserted the client requests
Connecting, and once the RenetClient is connected the next frame requests Connected -/
theorem Client.progress (c : Client) (hd : c.next.getD c.state = .disconnected) (ht : c.transport = true) (ha : c.added = true) :
    (c.frame false).next = some .connecting := by
  obtain ⟨t, a, e, st, n, rc, pr, rq⟩ := c
  simp only at hd ht ha; subst ht ha
  simp [Client.frame, hd]

theorem Client.progress_verify (c : Client) (hd : c.next.getD c.state = .connecting) (ht : c.transport = true)
    (ha : c.added = false) (hc : c.renetConnected = true) : (c.frame false).next = some .connected := by
  obtain ⟨t, a, e, st, n, rc, pr, rq⟩ := c
  simp only at hd ht hc ha; subst ht hc ha
  simp [Client.frame, hd]

/-- exactly one `RequestInitialSync` per join: a request is sent only by the frame that requests Connected,
and the frame after that cannot send another one -/
theorem Client.request_once (c : Client) (h : c.Inv) :
    ((c.frame false).requests = c.requests + 1 → (c.frame false).next = some .connected) ∧
    ((c.frame false).next = some .connected → ((c.frame false).frame false).requests = (c.frame false).requests) := by
  obtain ⟨t, a, e, st, n, rc, pr, rq⟩ := c
  rcases n with _ | b
  · cases t <;> cases a <;> cases e <;> cases st <;> cases rc <;> cases pr <;> simp_all [Client.frame, Client.Inv]
  · cases b <;> cases t <;> cases a <;> cases e <;> cases st <;> cases rc <;> cases pr <;> simp_all [Client.frame, Client.Inv]

end Conn
end BevySync
