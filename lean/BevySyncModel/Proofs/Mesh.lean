import BevySyncModel.Codec.Mesh
import BevySyncModel.Proofs.Lz4
import BevySyncModel.Proofs.Wire
/-! Glue lemmas for the mesh codec: `dataToMesh (meshToData m) = some m.normalize`. -/
namespace BevySync
namespace Codec
open Wire

@[simp] theorem toList_ofList (l : List Val) : (ValList.ofList l).toList = l := by
  induction l with
  | nil => rfl
  | cons a l ih => simp [ValList.ofList, ValList.toList, ih]

theorem optMap_map {α β : Type} (f : α → Option β) (g : β → α) (h : ∀ b, f (g b) = Option.some b)
    (l : List β) : optMap f (l.map g) = Option.some l := by
  induction l with
  | nil => rfl
  | cons a l ih => simp [optMap, h, ih]

@[simp] theorem valInts_intsVal (w : Nat) (l : List Nat) : valInts (intsVal w l) = Option.some l := by
  simp [valInts, intsVal, optMap_map valInt (Val.int w) (fun _ => rfl)]

@[simp] theorem valRow_rowVal (w : Nat) (r : List Nat) : valRow (rowVal w r) = Option.some r := by
  simp [valRow, rowVal, optMap_map valInt (Val.int w) (fun _ => rfl)]

@[simp] theorem valRows_rowsVal (w : Nat) (rows : Rows) : valRows (rowsVal w rows) = Option.some rows := by
  simp [valRows, rowsVal, optMap_map valRow (rowVal w) (valRow_rowVal w)]

@[simp] theorem valAttr_attrVal (w : Nat) (a : Option Rows) : valAttr (attrVal w a) = Option.some a := by
  cases a <;> simp [valAttr, attrVal]

@[simp] theorem valNames_namesVal (n : Option (List (List UInt8))) : valNames (namesVal n) = Option.some n := by
  cases n with
  | none => rfl
  | some ns => simp [valNames, namesVal, optMap_map valStr Val.str (fun _ => rfl)]

theorem valMorph_morphVal (m : Morph) :
    valMorph (morphVal m) = Option.some m.normalize := by
  cases m <;> rfl

theorem dataToMesh_meshToData (m : Mesh) (ht : m.topology ≤ 4) :
    dataToMesh (meshToData m) = Option.some m.normalize := by
  obtain ⟨t, p, n, a0, a1, tg, cl, jw, ji, ix, mo, mn⟩ := m
  simp only at ht
  cases ix <;>
    simp [dataToMesh, meshToData, ValList.ofList, valMorph_morphVal, valOptInts, Mesh.normalize,
      topologyOfCode, ht, indicesOf]

theorem binToMesh_meshToBin (m : Mesh) (h : m.wf = true) : binToMesh (meshToBin m) = .ok m.normalize := by
  simp only [Mesh.wf, Bool.and_eq_true, decide_eq_true_eq] at h
  obtain ⟨ht, hw⟩ := h
  rw [binToMesh, meshToBin, Lz4.lz4_roundtrip]
  simp only [decode_enc _ _ hw, dataToMesh_meshToData m ht]

end Codec
end BevySync
