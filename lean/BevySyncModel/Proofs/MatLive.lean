import BevySyncModel.Proofs.MatBound
import BevySyncModel.Proofs.CompLive
/-! Bounded time to quiescence in the material slice: from **any** state (distinct client ids), three fair rounds without
publications end in a quiescent state.  A fair round: the host handles every pending `AssetEvent`, takes every message of
every client's channel and runs every closure; then every client does the same.  One action of the slice handles one event,
one message or one closure, so a round repeats each action as often as there is anything to handle (repeating it more
often changes nothing). -/
namespace BevySync
namespace Mat
open Comp (iter foldl_inv foldl_max_ge)

instance decQuiescentM (s : State) : Decidable (Quiescent s) := by
  unfold Quiescent; infer_instance

/-! ## tools -/

theorem iter_add {α : Type} (f : α → α) (m k : Nat) (a : α) : iter f (m + k) a = iter f k (iter f m a) := by
  induction m generalizing a with
  | zero => simp [iter]
  | succ m ih => rw [Nat.succ_add]; simp only [iter]; exact ih (f a)

theorem iter_fixed {α : Type} (f : α → α) (k : Nat) (a : α) (h : f a = a) : iter f k a = a := by
  induction k with
  | zero => rfl
  | succ k ih => simp only [iter, h, ih]

theorem onClient_onClient (i : Nat) (f g : Client → Client) (cs : List Client) (hg : ∀ c, (g c).id = c.id) :
    onClient i f (onClient i g cs) = onClient i (fun c => f (g c)) cs := by
  unfold onClient
  rw [List.map_map]
  apply List.map_congr_left
  intro c _
  simp only [Function.comp]
  by_cases h : c.id = i
  · simp [h, hg c]
  · simp [h]

theorem onClient_congr (i : Nat) (f g : Client → Client) (cs : List Client)
    (h : ∀ c ∈ cs, c.id = i → f c = g c) : onClient i f cs = onClient i g cs := by
  unfold onClient
  apply List.map_congr_left
  intro c hc
  by_cases hi : c.id = i
  · simp [hi, h c hc hi]
  · simp [hi]

theorem onClient_id (i : Nat) (cs : List Client) : onClient i (fun c => c) cs = cs := by
  unfold onClient
  conv => rhs; rw [← List.map_id cs]
  apply List.map_congr_left
  intro c _
  split <;> rfl

theorem iter_id (f : Client → Client) (hf : ∀ c, (f c).id = c.id) (n : Nat) (c : Client) : (iter f n c).id = c.id := by
  induction n generalizing c with
  | zero => rfl
  | succ n ih => simp only [iter]; rw [ih, hf]

/-- repeating a per-client action on the state is repeating it on the client -/
theorem iter_onClient (g : State → State) (i : Nat) (f : Client → Client) (hf : ∀ c, (f c).id = c.id)
    (hg : ∀ t, (g t).clients = onClient i f t.clients ∧ (g t).host = t.host ∧ (g t).hdefer = t.hdefer)
    (n : Nat) (s : State) :
    (iter g n s).clients = onClient i (iter f n) s.clients ∧ (iter g n s).host = s.host ∧ (iter g n s).hdefer = s.hdefer := by
  induction n generalizing s with
  | zero => exact ⟨(onClient_id i s.clients).symm, rfl, rfl⟩
  | succ n ih =>
    obtain ⟨a, b, c⟩ := ih (g s)
    obtain ⟨d, e, f'⟩ := hg s
    simp only [iter]
    refine ⟨?_, b.trans e, c.trans f'⟩
    rw [a, d]
    exact onClient_onClient i (iter f n) f _ hf

/-! ## what one client does in a round -/

def covered (p : Peer) : Prop := p.events ≤ p.tokens

theorem cReact_id (c : Client) : (cReact c).id = c.id := by
  unfold cReact; split <;> rfl
theorem cPoll_id (c : Client) : (cPoll c).id = c.id := by
  unfold cPoll; split <;> rfl
theorem cFlush_id (c : Client) : (cFlush true c).id = c.id := by
  unfold cFlush; split <;> rfl

theorem react_events (p : Peer) : (react p).1.events = p.events - 1 ∧
    (covered p → (react p).2 = none ∧ covered (react p).1) := by
  by_cases h0 : p.events = 0
  · have e : react p = (p, none) := by simp [react, h0]
    rw [e]
    exact ⟨by rw [h0], fun h => ⟨rfl, h⟩⟩
  · by_cases ht : p.tokens > 0
    · have e : react p = ({ p with events := p.events - 1, tokens := p.tokens - 1 }, none) := by simp [react, h0, ht]
      rw [e]
      refine ⟨rfl, fun h => ⟨rfl, ?_⟩⟩
      unfold covered at *
      show p.events - 1 ≤ p.tokens - 1
      omega
    · have e : react p = ({ p with events := p.events - 1 }, p.content) := by simp [react, h0, ht]
      rw [e]
      refine ⟨rfl, fun h => ?_⟩
      unfold covered at h
      omega

theorem cReact_spec (c : Client) : (cReact c).p.events = c.p.events - 1 ∧ (cReact c).down = c.down ∧
    (cReact c).defer = c.defer ∧ (covered c.p → covered (cReact c).p ∧ (cReact c).up = c.up) := by
  obtain ⟨h1, h2⟩ := react_events c.p
  cases hr : (react c.p).2 with
  | none =>
    have e : cReact c = { c with p := (react c.p).1 } := by simp [cReact, hr]
    rw [e]
    exact ⟨h1, rfl, rfl, fun h => ⟨(h2 h).2, rfl⟩⟩
  | some v =>
    have e : cReact c = { c with p := (react c.p).1, up := c.up ++ [v] } := by simp [cReact, hr]
    rw [e]
    refine ⟨h1, rfl, rfl, fun h => ?_⟩
    rw [(h2 h).1] at hr
    cases hr

theorem iter_cReact (n : Nat) (c : Client) :
    (iter cReact n c).p.events = c.p.events - n ∧ (iter cReact n c).down = c.down ∧ (iter cReact n c).defer = c.defer ∧
    (covered c.p → covered (iter cReact n c).p ∧ (iter cReact n c).up = c.up) := by
  induction n generalizing c with
  | zero => exact ⟨rfl, rfl, rfl, fun h => ⟨h, rfl⟩⟩
  | succ n ih =>
    obtain ⟨a1, a2, a3, a4⟩ := cReact_spec c
    obtain ⟨b1, b2, b3, b4⟩ := ih (cReact c)
    simp only [iter]
    refine ⟨by rw [b1, a1]; omega, b2.trans a2, b3.trans a3, fun h => ?_⟩
    obtain ⟨x, y⟩ := a4 h
    obtain ⟨z, w⟩ := b4 x
    exact ⟨z, w.trans y⟩

theorem cPoll_spec (c : Client) : (cPoll c).p = c.p ∧ (cPoll c).up = c.up ∧
    (cPoll c).defer ++ (cPoll c).down = c.defer ++ c.down ∧ (cPoll c).down.length = c.down.length - 1 := by
  cases hd : c.down with
  | nil =>
    have e : cPoll c = c := by simp [cPoll, hd]
    rw [e]
    exact ⟨rfl, rfl, by rw [hd], by rw [hd]; rfl⟩
  | cons v rest =>
    have e : cPoll c = { c with defer := c.defer ++ [v], down := rest } := by simp [cPoll, hd]
    rw [e]
    exact ⟨rfl, rfl, by simp, by simp⟩

theorem iter_cPoll (n : Nat) (c : Client) :
    (iter cPoll n c).p = c.p ∧ (iter cPoll n c).up = c.up ∧
    (iter cPoll n c).defer ++ (iter cPoll n c).down = c.defer ++ c.down ∧ (iter cPoll n c).down.length = c.down.length - n := by
  induction n generalizing c with
  | zero => exact ⟨rfl, rfl, rfl, rfl⟩
  | succ n ih =>
    obtain ⟨a1, a2, a3, a4⟩ := cPoll_spec c
    obtain ⟨b1, b2, b3, b4⟩ := ih (cPoll c)
    simp only [iter]
    exact ⟨b1.trans a1, b2.trans a2, b3.trans a3, by rw [b4, a4]; omega⟩

theorem apply_covered (p : Peer) (v : Nat) (h : covered p) : covered (apply true p v) := by
  unfold covered apply at *
  simp only [if_true]
  omega

theorem cFlush_spec (c : Client) : (cFlush true c).up = c.up ∧ (cFlush true c).down = c.down ∧
    (cFlush true c).defer.length = c.defer.length - 1 ∧ (covered c.p → covered (cFlush true c).p) := by
  cases hd : c.defer with
  | nil =>
    have e : cFlush true c = c := by simp [cFlush, hd]
    rw [e]
    exact ⟨rfl, rfl, by rw [hd]; rfl, fun h => h⟩
  | cons v rest =>
    have e : cFlush true c = { c with p := apply true c.p v, defer := rest } := by simp [cFlush, hd]
    rw [e]
    exact ⟨rfl, rfl, by simp, apply_covered c.p v⟩

theorem iter_cFlush (n : Nat) (c : Client) : (iter (cFlush true) n c).up = c.up ∧ (iter (cFlush true) n c).down = c.down ∧
    (iter (cFlush true) n c).defer.length = c.defer.length - n ∧ (covered c.p → covered (iter (cFlush true) n c).p) := by
  induction n generalizing c with
  | zero => exact ⟨rfl, rfl, rfl, fun h => h⟩
  | succ n ih =>
    obtain ⟨a1, a2, a3, a4⟩ := cFlush_spec c
    obtain ⟨b1, b2, b3, b4⟩ := ih (cFlush true c)
    simp only [iter]
    exact ⟨b1.trans a1, b2.trans a2, by rw [b3, a3]; omega, fun h => b4 (a4 h)⟩

/-- a visit with counts that are large enough: everything handled, every remaining event covered -/
def Post1 (c : Client) : Prop := covered c.p ∧ c.down = [] ∧ c.defer = []

theorem visit_post (n1 n2 n3 : Nat) (c : Client) (h1 : c.p.events ≤ n1) (h2 : c.down.length ≤ n2)
    (h3 : c.defer.length + c.down.length ≤ n3) :
    Post1 (iter (cFlush true) n3 (iter cPoll n2 (iter cReact n1 c))) ∧
    (covered c.p → (iter (cFlush true) n3 (iter cPoll n2 (iter cReact n1 c))).up = c.up) ∧
    (covered c.p → c.down = [] → c.defer = [] → (iter (cFlush true) n3 (iter cPoll n2 (iter cReact n1 c))).p.events = 0) := by
  obtain ⟨r1, r2, r3, r4⟩ := iter_cReact n1 c
  obtain ⟨p1, p2, p3, p4⟩ := iter_cPoll n2 (iter cReact n1 c)
  obtain ⟨f1, f2, f3, f4⟩ := iter_cFlush n3 (iter cPoll n2 (iter cReact n1 c))
  have hev : (iter cReact n1 c).p.events = 0 := by rw [r1]; omega
  have hcov : covered (iter cPoll n2 (iter cReact n1 c)).p := by
    rw [p1]; unfold covered; rw [hev]; exact Nat.zero_le _
  have hdown : (iter cPoll n2 (iter cReact n1 c)).down = [] := by
    apply List.eq_nil_of_length_eq_zero
    rw [p4, r2]; omega
  have hdefer : (iter cPoll n2 (iter cReact n1 c)).defer = c.defer ++ c.down := by
    have := p3
    rw [hdown, List.append_nil, r3, r2] at this
    exact this
  refine ⟨⟨f4 hcov, by rw [f2]; exact hdown, ?_⟩, ?_, ?_⟩
  · apply List.eq_nil_of_length_eq_zero
    rw [f3, hdefer, List.length_append]; omega
  · intro h
    rw [f1, p2, (r4 h).2]
  · intro h hd hf
    -- nothing to apply: the closures' list is empty, the flush is the identity
    have hnil : (iter cPoll n2 (iter cReact n1 c)).defer = [] := by rw [hdefer, hd, hf]; rfl
    have hfix : cFlush true (iter cPoll n2 (iter cReact n1 c)) = iter cPoll n2 (iter cReact n1 c) := by
      unfold cFlush; rw [hnil]
    rw [iter_fixed _ n3 _ hfix, p1, hev]

/-! ## one client's part of a round, on the state -/

def maxEvents (s : State) : Nat := (s.clients.map (·.p.events)).foldl max 0
def maxUp (s : State) : Nat := (s.clients.map (·.up.length)).foldl max 0
def maxDown (s : State) : Nat := (s.clients.map (·.down.length)).foldl max 0
def maxDefer (s : State) : Nat := (s.clients.map (·.defer.length)).foldl max 0

theorem le_maxEvents (s : State) (c : Client) (h : c ∈ s.clients) : c.p.events ≤ maxEvents s :=
  (foldl_max_ge _ 0).2 _ (List.mem_map.mpr ⟨c, h, rfl⟩)
theorem le_maxUp (s : State) (c : Client) (h : c ∈ s.clients) : c.up.length ≤ maxUp s :=
  (foldl_max_ge _ 0).2 _ (List.mem_map.mpr ⟨c, h, rfl⟩)
theorem le_maxDown (s : State) (c : Client) (h : c ∈ s.clients) : c.down.length ≤ maxDown s :=
  (foldl_max_ge _ 0).2 _ (List.mem_map.mpr ⟨c, h, rfl⟩)
theorem le_maxDefer (s : State) (c : Client) (h : c ∈ s.clients) : c.defer.length ≤ maxDefer s :=
  (foldl_max_ge _ 0).2 _ (List.mem_map.mpr ⟨c, h, rfl⟩)

def cp1 (i : Nat) (s : State) : State := iter (fun t => step true t (.reactC i)) (maxEvents s) s
def cp2 (i : Nat) (s : State) : State := iter (fun t => step true t (.pollC i)) (maxDown (cp1 i s)) (cp1 i s)
def clientPhase (i : Nat) (s : State) : State := iter (fun t => step true t (.flushC i)) (maxDefer (cp2 i s)) (cp2 i s)

def visit (n1 n2 n3 : Nat) (c : Client) : Client := iter (cFlush true) n3 (iter cPoll n2 (iter cReact n1 c))

theorem visit_id (n1 n2 n3 : Nat) (c : Client) : (visit n1 n2 n3 c).id = c.id := by
  unfold visit
  rw [iter_id _ cFlush_id, iter_id _ cPoll_id, iter_id _ cReact_id]

theorem mem_onClient_of {i : Nat} (f : Client → Client) {cs : List Client} {c : Client} (hc : c ∈ cs) (hi : c.id = i) :
    f c ∈ onClient i f cs := by
  unfold onClient
  exact List.mem_map.mpr ⟨c, hc, by simp [hi]⟩

theorem cp1_eq (i : Nat) (s : State) : (cp1 i s).clients = onClient i (iter cReact (maxEvents s)) s.clients ∧
    (cp1 i s).host = s.host ∧ (cp1 i s).hdefer = s.hdefer :=
  iter_onClient (fun t => step true t (.reactC i)) i cReact cReact_id (fun _ => ⟨rfl, rfl, rfl⟩) (maxEvents s) s

theorem cp2_eq (i : Nat) (s : State) :
    (cp2 i s).clients = onClient i (fun c => iter cPoll (maxDown (cp1 i s)) (iter cReact (maxEvents s) c)) s.clients ∧
    (cp2 i s).host = s.host ∧ (cp2 i s).hdefer = s.hdefer := by
  obtain ⟨a1, a2, a3⟩ := cp1_eq i s
  obtain ⟨b1, b2, b3⟩ := iter_onClient (fun t => step true t (.pollC i)) i cPoll cPoll_id (fun _ => ⟨rfl, rfl, rfl⟩)
    (maxDown (cp1 i s)) (cp1 i s)
  refine ⟨?_, b2.trans a2, b3.trans a3⟩
  unfold cp2
  rw [b1, a1]
  exact onClient_onClient i _ _ _ (fun c => iter_id _ cReact_id _ c)

/-- the client's part of a round is a visit with counts that are large enough for every client with that id -/
theorem clientPhase_eq (i : Nat) (s : State) :
    (clientPhase i s).clients = onClient i (visit (maxEvents s) (maxDown (cp1 i s)) (maxDefer (cp2 i s))) s.clients ∧
      (clientPhase i s).host = s.host ∧ (clientPhase i s).hdefer = s.hdefer ∧
      ∀ c ∈ s.clients, c.id = i → c.p.events ≤ maxEvents s ∧ c.down.length ≤ maxDown (cp1 i s) ∧
        c.defer.length + c.down.length ≤ maxDefer (cp2 i s) := by
  obtain ⟨a1, a2, a3⟩ := cp1_eq i s
  obtain ⟨b1, b2, b3⟩ := cp2_eq i s
  obtain ⟨c1, c2, c3⟩ := iter_onClient (fun t => step true t (.flushC i)) i (cFlush true) cFlush_id
    (fun _ => ⟨rfl, rfl, rfl⟩) (maxDefer (cp2 i s)) (cp2 i s)
  refine ⟨?_, c2.trans b2, c3.trans b3, ?_⟩
  · unfold clientPhase
    rw [c1, b1]
    exact onClient_onClient i _ _ _ (fun c => by rw [iter_id _ cPoll_id, iter_id _ cReact_id])
  · intro c hc hci
    have m1 : iter cReact (maxEvents s) c ∈ (cp1 i s).clients := by
      rw [a1]; exact mem_onClient_of _ hc hci
    have hd1 := le_maxDown _ _ m1
    have m2 : iter cPoll (maxDown (cp1 i s)) (iter cReact (maxEvents s) c) ∈ (cp2 i s).clients := by
      rw [b1]; exact mem_onClient_of (fun c => iter cPoll (maxDown (cp1 i s)) (iter cReact (maxEvents s) c)) hc hci
    have hf2 := le_maxDefer _ _ m2
    obtain ⟨_, r2, r3, _⟩ := iter_cReact (maxEvents s) c
    obtain ⟨_, _, p3, p4⟩ := iter_cPoll (maxDown (cp1 i s)) (iter cReact (maxEvents s) c)
    rw [r2] at hd1
    refine ⟨le_maxEvents s c hc, hd1, ?_⟩
    have hdown : (iter cPoll (maxDown (cp1 i s)) (iter cReact (maxEvents s) c)).down = [] := by
      apply List.eq_nil_of_length_eq_zero
      rw [p4, r2]; omega
    rw [hdown, List.append_nil, r3, r2] at p3
    rw [p3, List.length_append] at hf2
    exact hf2

/-! ## the host's part of a round -/

def KeepsM (cs cs' : List Client) : Prop :=
  ∀ c' ∈ cs', ∃ c ∈ cs, c'.id = c.id ∧ c'.p = c.p ∧ c'.defer = c.defer

theorem keepsM_refl (cs : List Client) : KeepsM cs cs := fun c hc => ⟨c, hc, rfl, rfl, rfl⟩

theorem keepsM_trans {a b c : List Client} (h1 : KeepsM a b) (h2 : KeepsM b c) : KeepsM a c := by
  intro x hx
  obtain ⟨y, hy, e1, e2, e3⟩ := h2 x hx
  obtain ⟨z, hz, f1, f2, f3⟩ := h1 y hy
  exact ⟨z, hz, e1.trans f1, e2.trans f2, e3.trans f3⟩

theorem keepsM_map (g : Client → Client) (cs : List Client)
    (hg : ∀ c, (g c).id = c.id ∧ (g c).p = c.p ∧ (g c).defer = c.defer) : KeepsM cs (cs.map g) := by
  intro x hx
  obtain ⟨c, hc, rfl⟩ := List.mem_map.mp hx
  exact ⟨c, hc, (hg c).1, (hg c).2.1, (hg c).2.2⟩

theorem ids_map' (g : Client → Client) (cs : List Client) (hg : ∀ c, (g c).id = c.id) :
    (cs.map g).map (·.id) = cs.map (·.id) := by
  rw [List.map_map]
  apply List.map_congr_left
  intro c _
  exact hg c

theorem ids_onClient' (i : Nat) (f : Client → Client) (cs : List Client) (hf : ∀ c, (f c).id = c.id) :
    (onClient i f cs).map (·.id) = cs.map (·.id) := by
  unfold onClient
  exact ids_map' _ _ (fun c => by split; exact hf c; rfl)

/-- one `reactH`: the host's event count goes down by one; the clients' channels get at most the announcement -/
theorem reactH_spec (t : State) :
    (step true t .reactH).host = (react t.host).1 ∧ (step true t .reactH).hdefer = t.hdefer ∧
    ∃ q : List Nat, (step true t .reactH).clients = t.clients.map (fun c => { c with down := c.down ++ q }) ∧
      ((react t.host).2 = none → q = []) := by
  cases hr : (react t.host).2 with
  | none =>
    have e : step true t .reactH = { t with host := (react t.host).1 } := by simp only [step, hr]
    rw [e]
    refine ⟨rfl, rfl, [], ?_, fun _ => rfl⟩
    conv => lhs; rw [← List.map_id t.clients]
    apply List.map_congr_left
    intro c _
    simp
  | some v =>
    have e : step true t .reactH =
        { t with
          host := (react t.host).1
          clients := t.clients.map (fun c => { c with down := c.down ++ [v] })
          sent := t.sent + t.clients.length } := by
      simp only [step, hr]
    rw [e]
    exact ⟨rfl, rfl, [v], rfl, fun h => by cases h⟩

theorem iter_reactH (n : Nat) (t : State) :
    (iter (fun t => step true t .reactH) n t).host.events = t.host.events - n ∧
    (iter (fun t => step true t .reactH) n t).hdefer = t.hdefer ∧
    (covered t.host → covered (iter (fun t => step true t .reactH) n t).host) ∧
    ∃ q : List Nat, (iter (fun t => step true t .reactH) n t).clients = t.clients.map (fun c => { c with down := c.down ++ q }) ∧
      (covered t.host → q = []) := by
  induction n generalizing t with
  | zero =>
    refine ⟨rfl, rfl, fun h => h, [], ?_, fun _ => rfl⟩
    simp only [iter]
    conv => lhs; rw [← List.map_id t.clients]
    apply List.map_congr_left
    intro c _
    simp
  | succ n ih =>
    obtain ⟨a1, a2, q1, a3, a4⟩ := reactH_spec t
    obtain ⟨b1, b2, b3, q2, b4, b5⟩ := ih (step true t .reactH)
    obtain ⟨r1, r2⟩ := react_events t.host
    simp only [iter]
    refine ⟨by rw [b1, a1, r1]; omega, b2.trans a2, fun h => b3 (by rw [a1]; exact (r2 h).2), q1 ++ q2, ?_, ?_⟩
    · rw [b4, a3, List.map_map]
      apply List.map_congr_left
      intro c _
      simp [List.append_assoc]
    · intro h
      rw [a4 (r2 h).1, b5 (by rw [a1]; exact (r2 h).2)]
      rfl

theorem findClient_none_absent {i : Nat} {cs : List Client} (h : findClient i cs = none) : ∀ c ∈ cs, c.id ≠ i := by
  intro c hc hci
  unfold findClient at h
  have := List.find?_eq_none.mp h c hc
  simp [hci] at this

/-- one `pollH` (distinct ids): the head of the client's channel becomes a host closure -/
theorem pollH_spec (i : Nat) (t : State) (hn : (t.clients.map (·.id)).Nodup) :
    (step true t (.pollH i)).host = t.host ∧
    (step true t (.pollH i)).clients = onClient i (fun c => { c with up := c.up.drop 1 }) t.clients ∧
    ((∀ c ∈ t.clients, c.up = []) → (step true t (.pollH i)).hdefer = t.hdefer) := by
  cases hf : findClient i t.clients with
  | none =>
    have e : step true t (.pollH i) = t := by simp only [step, hf]
    rw [e]
    refine ⟨rfl, ?_, fun _ => rfl⟩
    unfold onClient
    conv => lhs; rw [← List.map_id t.clients]
    apply List.map_congr_left
    intro c hc
    simp [findClient_none_absent hf c hc]
  | some c0 =>
    obtain ⟨hm0, hi0⟩ := findClient_spec hf
    have huniq : ∀ c ∈ t.clients, c.id = i → c = c0 := by
      intro c hc hci
      have := findClient_of_mem hn hc hci
      rw [hf] at this
      exact (Option.some.inj this).symm
    cases hup : c0.up with
    | nil =>
      have e : step true t (.pollH i) = t := by simp only [step, hf, hup]
      rw [e]
      refine ⟨rfl, ?_, fun _ => rfl⟩
      unfold onClient
      conv => lhs; rw [← List.map_id t.clients]
      apply List.map_congr_left
      intro c hc
      by_cases hci : c.id = i
      · have := huniq c hc hci
        subst this
        simp only [hci, if_true, hup, List.drop_nil, id]
        cases c
        simp_all
      · simp [hci]
    | cons v rest =>
      have e : step true t (.pollH i) =
          { t with
            hdefer := t.hdefer ++ [(i, v)]
            clients := onClient i (fun c => { c with up := rest }) t.clients } := by simp only [step, hf, hup]
      rw [e]
      refine ⟨rfl, ?_, fun h => ?_⟩
      · apply onClient_congr
        intro c hc hci
        have := huniq c hc hci
        subst this
        simp [hup]
      · have := h c0 hm0
        rw [hup] at this
        cases this

theorem iter_pollH (i : Nat) (k : Nat) (t : State) (hn : (t.clients.map (·.id)).Nodup) :
    (iter (fun t => step true t (.pollH i)) k t).host = t.host ∧
    (iter (fun t => step true t (.pollH i)) k t).clients = onClient i (fun c => { c with up := c.up.drop k }) t.clients ∧
    ((∀ c ∈ t.clients, c.up = []) → (iter (fun t => step true t (.pollH i)) k t).hdefer = t.hdefer) := by
  induction k generalizing t with
  | zero =>
    refine ⟨rfl, ?_, fun _ => rfl⟩
    simp only [iter, List.drop_zero]
    exact (onClient_id i t.clients).symm
  | succ k ih =>
    obtain ⟨a1, a2, a3⟩ := pollH_spec i t hn
    have hn' : ((step true t (.pollH i)).clients.map (·.id)).Nodup := by
      rw [a2, ids_onClient' i (fun c : Client => { c with up := c.up.drop 1 }) _ (fun _ => rfl)]; exact hn
    obtain ⟨b1, b2, b3⟩ := ih (step true t (.pollH i)) hn'
    simp only [iter]
    refine ⟨b1.trans a1, ?_, fun h => ?_⟩
    · rw [b2, a2, onClient_onClient i (fun c : Client => { c with up := c.up.drop k })
        (fun c : Client => { c with up := c.up.drop 1 }) _ (fun _ => rfl)]
      apply onClient_congr
      intro c _ _
      simp [List.drop_drop, Nat.add_comm]
    · rw [b3 ?_, a3 h]
      rw [a2]
      intro c' hc'
      unfold onClient at hc'
      obtain ⟨c, hc, rfl⟩ := List.mem_map.mp hc'
      split
      · simp [h c hc]
      · exact h c hc

def clearUp (c : Client) : Client := { c with up := [] }

def pollI (i : Nat) (t : State) : State := iter (fun t => step true t (.pollH i)) (maxUp t) t

theorem pollI_spec (i : Nat) (t : State) (hn : (t.clients.map (·.id)).Nodup) :
    (pollI i t).host = t.host ∧ (pollI i t).clients = onClient i clearUp t.clients ∧
    ((∀ c ∈ t.clients, c.up = []) → (pollI i t).hdefer = t.hdefer) := by
  obtain ⟨a1, a2, a3⟩ := iter_pollH i (maxUp t) t hn
  refine ⟨a1, ?_, a3⟩
  unfold pollI
  rw [a2]
  apply onClient_congr
  intro c hc _
  simp only [clearUp, List.drop_eq_nil_of_le (le_maxUp t c hc)]

def hp1 (s : State) : State := iter (fun t => step true t .reactH) s.host.events s
def hp2 (s : State) : State := (s.clients.map (·.id)).foldl (fun t i => pollI i t) (hp1 s)
def hostPhase (s : State) : State := iter (fun t => step true t .flushH) (hp2 s).hdefer.length (hp2 s)

theorem pollAllM (is : List Nat) (s : State) (hn : (s.clients.map (·.id)).Nodup) :
    (is.foldl (fun t i => pollI i t) s).host = s.host ∧ KeepsM s.clients (is.foldl (fun t i => pollI i t) s).clients ∧
    (is.foldl (fun t i => pollI i t) s).clients.map (·.id) = s.clients.map (·.id) ∧
    (∀ c ∈ (is.foldl (fun t i => pollI i t) s).clients, c.id ∈ is → c.up = []) ∧
    ((∀ c ∈ s.clients, c.down = []) → ∀ c ∈ (is.foldl (fun t i => pollI i t) s).clients, c.down = []) ∧
    ((s.hdefer = [] ∧ ∀ c ∈ s.clients, c.up = []) → (is.foldl (fun t i => pollI i t) s).hdefer = []) := by
  have key := foldl_inv (fun t i => pollI i t)
    (fun done t => t.host = s.host ∧ KeepsM s.clients t.clients ∧ t.clients.map (·.id) = s.clients.map (·.id) ∧
      (∀ c ∈ t.clients, c.id ∈ done → c.up = []) ∧
      ((∀ c ∈ s.clients, c.down = []) → ∀ c ∈ t.clients, c.down = []) ∧
      ((s.hdefer = [] ∧ ∀ c ∈ s.clients, c.up = []) → t.hdefer = [] ∧ ∀ c ∈ t.clients, c.up = []))
    is [] s
    ⟨rfl, keepsM_refl _, rfl, fun _ _ h => by simp at h, fun h => h, fun h => h⟩
    (by
      intro done i t ⟨h1, h2, h3, h4, h5, h6⟩
      have hnt : (t.clients.map (·.id)).Nodup := by rw [h3]; exact hn
      obtain ⟨p1, p2, p3⟩ := pollI_spec i t hnt
      refine ⟨p1.trans h1, ?_, ?_, ?_, ?_, ?_⟩
      · rw [p2]
        refine keepsM_trans h2 ?_
        unfold onClient
        exact keepsM_map _ _ (fun c => by split <;> exact ⟨rfl, rfl, rfl⟩)
      · rw [p2, ids_onClient' i clearUp _ (fun _ => rfl)]; exact h3
      · rw [p2]
        apply forall_onClient
        · intro c hc hne hin
          simp only [List.mem_append, List.mem_singleton] at hin
          rcases hin with hin | hin
          · exact h4 c hc hin
          · exact absurd hin hne
        · intro c _ _ _; rfl
      · intro hd
        rw [p2]
        apply forall_onClient
        · intro c hc _; exact h5 hd c hc
        · intro c hc _; exact h5 hd c hc
      · intro hq
        obtain ⟨q1, q2⟩ := h6 hq
        refine ⟨by rw [p3 q2]; exact q1, ?_⟩
        rw [p2]
        apply forall_onClient
        · intro c hc _; exact q2 c hc
        · intro c _ _; rfl)
  simp only [List.nil_append] at key
  obtain ⟨k1, k2, k3, k4, k5, k6⟩ := key
  exact ⟨k1, k2, k3, k4, k5, fun h => (k6 h).1⟩

def flushSeqM (p : Peer) (vs : List Nat) : Peer := vs.foldl (fun p v => apply true p v) p

theorem flushSeqM_covered (vs : List Nat) (p : Peer) (h : covered p) : covered (flushSeqM p vs) := by
  induction vs generalizing p with
  | nil => exact h
  | cons v vs ih => exact ih _ (apply_covered p v h)

theorem flushAllHM (k : Nat) (t : State) (hk : t.hdefer.length = k) :
    (iter (fun t => step true t .flushH) k t).hdefer = [] ∧
    (iter (fun t => step true t .flushH) k t).host = flushSeqM t.host (t.hdefer.map (·.2)) ∧
    (∀ c' ∈ (iter (fun t => step true t .flushH) k t).clients, ∃ c ∈ t.clients, c'.id = c.id ∧ c'.p = c.p ∧ c'.defer = c.defer ∧ c'.up = c.up) ∧
    (iter (fun t => step true t .flushH) k t).clients.map (·.id) = t.clients.map (·.id) := by
  induction k generalizing t with
  | zero =>
    have : t.hdefer = [] := List.eq_nil_of_length_eq_zero hk
    exact ⟨by simp [iter, this], by simp [iter, this, flushSeqM], fun c hc => ⟨c, hc, rfl, rfl, rfl, rfl⟩, rfl⟩
  | succ k ih =>
    cases hd : t.hdefer with
    | nil => rw [hd] at hk; cases hk
    | cons m rest =>
      obtain ⟨i, v⟩ := m
      have e : step true t .flushH =
          { t with
            host := apply true t.host v
            hdefer := rest
            clients := t.clients.map (fun c => if c.id = i then c else { c with down := c.down ++ [v] })
            sent := t.sent + (t.clients.filter (fun c => c.id ≠ i)).length } := by simp only [step, hd]
      have hk' : (step true t .flushH).hdefer.length = k := by
        rw [e]; rw [hd] at hk; simpa using hk
      obtain ⟨i1, i2, i3, i4⟩ := ih (step true t .flushH) hk'
      simp only [iter]
      refine ⟨i1, ?_, ?_, ?_⟩
      · rw [i2, e]; simp [flushSeqM]
      · intro c' hc'
        obtain ⟨c, hc, e1, e2, e3, e4⟩ := i3 c' hc'
        rw [e] at hc
        obtain ⟨d, hdm, rfl⟩ := List.mem_map.mp hc
        refine ⟨d, hdm, ?_⟩
        split at e1 <;> split at e2 <;> split at e3 <;> split at e4 <;> simp_all
      · rw [i4, e]
        exact ids_map' _ _ (fun c => by split <;> rfl)

theorem hp1_spec (s : State) : (hp1 s).host.events = 0 ∧ (hp1 s).hdefer = s.hdefer ∧
    (covered s.host → (hp1 s).clients = s.clients) ∧ KeepsM s.clients (hp1 s).clients ∧
    (hp1 s).clients.map (·.id) = s.clients.map (·.id) ∧
    (∀ c' ∈ (hp1 s).clients, ∃ c ∈ s.clients, c'.up = c.up) := by
  obtain ⟨a1, a2, _, q, a4, a5⟩ := iter_reactH s.host.events s
  unfold hp1
  refine ⟨by rw [a1]; omega, a2, fun h => ?_, ?_, ?_, ?_⟩
  · rw [a4, a5 h]
    conv => rhs; rw [← List.map_id s.clients]
    apply List.map_congr_left
    intro c _
    simp
  · rw [a4]; exact keepsM_map _ _ (fun _ => ⟨rfl, rfl, rfl⟩)
  · rw [a4]; exact ids_map' _ _ (fun _ => rfl)
  · rw [a4]
    intro c' hc'
    obtain ⟨c, hc, rfl⟩ := List.mem_map.mp hc'
    exact ⟨c, hc, rfl⟩

theorem hostPhase_post (s : State) (hn : (s.clients.map (·.id)).Nodup) :
    covered (hostPhase s).host ∧ (hostPhase s).hdefer = [] ∧ (∀ c ∈ (hostPhase s).clients, c.up = []) ∧
    (hostPhase s).clients.map (·.id) = s.clients.map (·.id) ∧ KeepsM s.clients (hostPhase s).clients := by
  obtain ⟨a1, _, _, a4, a5, _⟩ := hp1_spec s
  have hn1 : ((hp1 s).clients.map (·.id)).Nodup := by rw [a5]; exact hn
  obtain ⟨p1, p2, p3, p4, _, _⟩ := pollAllM (s.clients.map (·.id)) (hp1 s) hn1
  obtain ⟨f1, f2, f3, f4⟩ := flushAllHM (hp2 s).hdefer.length (hp2 s) rfl
  unfold hostPhase
  refine ⟨?_, f1, ?_, ?_, ?_⟩
  · rw [f2]
    apply flushSeqM_covered
    unfold hp2
    rw [p1]
    unfold covered
    rw [a1]
    exact Nat.zero_le _
  · intro c' hc'
    obtain ⟨c, hc, e1, _, _, e4⟩ := f3 c' hc'
    rw [e4]
    unfold hp2 at hc
    apply p4 c hc
    have : c.id ∈ ((s.clients.map (·.id)).foldl (fun t i => pollI i t) (hp1 s)).clients.map (·.id) :=
      List.mem_map.mpr ⟨c, hc, rfl⟩
    rw [p3, a5] at this
    exact this
  · rw [f4]; unfold hp2; rw [p3, a5]
  · refine keepsM_trans a4 (keepsM_trans p2 ?_)
    intro c' hc'
    obtain ⟨c, hc, e1, e2, e3, _⟩ := f3 c' hc'
    exact ⟨c, hc, e1, e2, e3⟩

theorem hostPhase_quiet (s : State) (hn : (s.clients.map (·.id)).Nodup) (h1 : covered s.host) (h3 : s.hdefer = [])
    (h4 : ∀ c ∈ s.clients, c.up = [] ∧ c.down = []) :
    (hostPhase s).host.events = 0 ∧ ∀ c ∈ (hostPhase s).clients, c.down = [] := by
  obtain ⟨a1, a2, a3, _, a5, _⟩ := hp1_spec s
  have hcl := a3 h1
  have hn1 : ((hp1 s).clients.map (·.id)).Nodup := by rw [a5]; exact hn
  obtain ⟨p1, _, _, _, p5, p6⟩ := pollAllM (s.clients.map (·.id)) (hp1 s) hn1
  have hq : (hp2 s).hdefer = [] := by
    unfold hp2
    apply p6
    refine ⟨by rw [a2]; exact h3, ?_⟩
    rw [hcl]
    exact fun c hc => (h4 c hc).1
  unfold hostPhase
  rw [hq]
  simp only [List.length_nil, iter]
  unfold hp2
  refine ⟨by rw [p1]; exact a1, ?_⟩
  apply p5
  rw [hcl]
  exact fun c hc => (h4 c hc).2

theorem visit_post' (n1 n2 n3 : Nat) (c : Client) (h1 : c.p.events ≤ n1) (h2 : c.down.length ≤ n2)
    (h3 : c.defer.length + c.down.length ≤ n3) :
    Post1 (visit n1 n2 n3 c) ∧ (covered c.p → (visit n1 n2 n3 c).up = c.up) ∧
    (covered c.p → c.down = [] → c.defer = [] → (visit n1 n2 n3 c).p.events = 0) := by
  unfold visit
  exact visit_post n1 n2 n3 c h1 h2 h3

/-! ## rounds -/

def round (s : State) : State := (s.clients.map (·.id)).foldl (fun t i => clientPhase i t) (hostPhase s)

/-- every client is visited: from `Pre` a visit establishes `Post`, and a later visit keeps it -/
theorem clients_fold (Pre Post : Client → Prop)
    (hF : ∀ n1 n2 n3 c, c.p.events ≤ n1 → c.down.length ≤ n2 → c.defer.length + c.down.length ≤ n3 →
      Pre c → Post (visit n1 n2 n3 c))
    (hS : ∀ n1 n2 n3 c, c.p.events ≤ n1 → c.down.length ≤ n2 → c.defer.length + c.down.length ≤ n3 →
      Post c → Post (visit n1 n2 n3 c))
    (t0 : State) (hpre : ∀ c ∈ t0.clients, Pre c) :
    let u := (t0.clients.map (·.id)).foldl (fun t i => clientPhase i t) t0
    u.host = t0.host ∧ u.hdefer = t0.hdefer ∧ ∀ c ∈ u.clients, Post c := by
  have key := foldl_inv (fun t i => clientPhase i t)
    (fun done t => t.host = t0.host ∧ t.hdefer = t0.hdefer ∧ t.clients.map (·.id) = t0.clients.map (·.id) ∧
      ∀ c ∈ t.clients, (Pre c ∨ Post c) ∧ (c.id ∈ done → Post c))
    (t0.clients.map (·.id)) [] t0
    ⟨rfl, rfl, rfl, fun c hc => ⟨Or.inl (hpre c hc), fun h => by simp at h⟩⟩
    (by
      intro done i t ⟨h1, h2, h3, h4⟩
      obtain ⟨e1, e2, e3, e4⟩ := clientPhase_eq i t
      refine ⟨e2.trans h1, e3.trans h2, ?_, ?_⟩
      · rw [e1, ids_onClient' i _ _ (fun c => visit_id _ _ _ c)]; exact h3
      · rw [e1]
        apply forall_onClient
        · intro c hc hne
          refine ⟨(h4 c hc).1, fun hin => ?_⟩
          simp only [List.mem_append, List.mem_singleton] at hin
          rcases hin with hin | hin
          · exact (h4 c hc).2 hin
          · exact absurd hin hne
        · intro c hc hci
          obtain ⟨b1, b2, b3⟩ := e4 c hc hci
          have hp : Post (visit (maxEvents t) (maxDown (cp1 i t)) (maxDefer (cp2 i t)) c) := by
            rcases (h4 c hc).1 with hp | hp
            · exact hF _ _ _ c b1 b2 b3 hp
            · exact hS _ _ _ c b1 b2 b3 hp
          exact ⟨Or.inr hp, fun _ => hp⟩)
  simp only [List.nil_append] at key
  obtain ⟨k1, k2, k3, k4⟩ := key
  refine ⟨k1, k2, fun c hc => (k4 c hc).2 ?_⟩
  rw [← k3]
  exact List.mem_map.mpr ⟨c, hc, rfl⟩

/-- **three fair rounds without publications end in quiescence — from any state with distinct client ids.** -/
theorem three_rounds_quiescent (s : State) (hn : (s.clients.map (·.id)).Nodup) :
    Quiescent (round (round (round s))) := by
  have ids_round : ∀ s : State, (s.clients.map (·.id)).Nodup → ((round s).clients.map (·.id)).Nodup := by
    intro s hn
    obtain ⟨_, _, _, a4, _⟩ := hostPhase_post s hn
    have key := foldl_inv (fun t i => clientPhase i t)
      (fun _ t => t.clients.map (·.id) = (hostPhase s).clients.map (·.id)) (s.clients.map (·.id)) [] (hostPhase s) rfl
      (by
        intro _ i t h
        obtain ⟨e1, _, _, _⟩ := clientPhase_eq i t
        rw [e1, ids_onClient' i _ _ (fun c => visit_id _ _ _ c)]; exact h)
    simp only [List.nil_append] at key
    unfold round
    rw [key, a4]; exact hn
  -- what one round gives from an arbitrary state
  have r1 : ∀ s : State, (s.clients.map (·.id)).Nodup → covered (round s).host ∧ (round s).hdefer = [] ∧
      ∀ c ∈ (round s).clients, Post1 c := by
    intro s hn
    obtain ⟨a1, a2, _, a4, _⟩ := hostPhase_post s hn
    obtain ⟨f1, f2, f3⟩ := clients_fold (fun _ => True) Post1
      (fun n1 n2 n3 c b1 b2 b3 _ => (visit_post' n1 n2 n3 c b1 b2 b3).1)
      (fun n1 n2 n3 c b1 b2 b3 _ => (visit_post' n1 n2 n3 c b1 b2 b3).1) (hostPhase s) (fun _ _ => trivial)
    unfold round
    rw [← a4]
    exact ⟨by rw [f1]; exact a1, by rw [f2]; exact a2, f3⟩
  have r2 : ∀ s : State, (s.clients.map (·.id)).Nodup → (∀ c ∈ s.clients, Post1 c) →
      ∀ c ∈ (round s).clients, Post1 c ∧ c.up = [] := by
    intro s hn hs
    obtain ⟨_, _, a3, a4, a5⟩ := hostPhase_post s hn
    obtain ⟨_, _, f3⟩ := clients_fold (fun c => covered c.p ∧ c.defer = [] ∧ c.up = []) (fun c => Post1 c ∧ c.up = [])
      (fun n1 n2 n3 c b1 b2 b3 h => ⟨(visit_post' n1 n2 n3 c b1 b2 b3).1, by
        rw [(visit_post' n1 n2 n3 c b1 b2 b3).2.1 h.1]; exact h.2.2⟩)
      (fun n1 n2 n3 c b1 b2 b3 h => ⟨(visit_post' n1 n2 n3 c b1 b2 b3).1, by
        rw [(visit_post' n1 n2 n3 c b1 b2 b3).2.1 h.1.1]; exact h.2⟩)
      (hostPhase s)
      (by
        intro c' hc'
        obtain ⟨c, hc, _, e2, e3⟩ := a5 c' hc'
        obtain ⟨p1, _, p3⟩ := hs c hc
        exact ⟨by rw [e2]; exact p1, by rw [e3]; exact p3, a3 c' hc'⟩)
    unfold round
    rw [← a4]
    exact f3
  have r3 : ∀ s : State, (s.clients.map (·.id)).Nodup → covered s.host → s.hdefer = [] →
      (∀ c ∈ s.clients, Post1 c ∧ c.up = []) → Quiescent (round s) := by
    intro s hn g1 g2 hs
    obtain ⟨_, a2, a3, a4, a5⟩ := hostPhase_post s hn
    obtain ⟨q1, q2⟩ := hostPhase_quiet s hn g1 g2 (fun c hc => ⟨(hs c hc).2, (hs c hc).1.2.1⟩)
    obtain ⟨f1, f2, f3⟩ := clients_fold
      (fun c => covered c.p ∧ c.defer = [] ∧ c.up = [] ∧ c.down = [])
      (fun c => c.p.events = 0 ∧ c.defer = [] ∧ c.up = [] ∧ c.down = [])
      (fun n1 n2 n3 c b1 b2 b3 h => by
        obtain ⟨v1, v2, v3⟩ := visit_post' n1 n2 n3 c b1 b2 b3
        exact ⟨v3 h.1 h.2.2.2 h.2.1, v1.2.2, by rw [v2 h.1]; exact h.2.2.1, v1.2.1⟩)
      (fun n1 n2 n3 c b1 b2 b3 h => by
        obtain ⟨v1, v2, v3⟩ := visit_post' n1 n2 n3 c b1 b2 b3
        have hcov : covered c.p := by unfold covered; rw [h.1]; exact Nat.zero_le _
        exact ⟨v3 hcov h.2.2.2 h.2.1, v1.2.2, by rw [v2 hcov]; exact h.2.2.1, v1.2.1⟩)
      (hostPhase s)
      (by
        intro c' hc'
        obtain ⟨c, hc, _, e2, e3⟩ := a5 c' hc'
        obtain ⟨⟨p1, _, p3⟩, _⟩ := hs c hc
        exact ⟨by rw [e2]; exact p1, by rw [e3]; exact p3, a3 c' hc', q2 c' hc'⟩)
    unfold round
    rw [← a4]
    refine ⟨by rw [f1]; exact q1, by rw [f2]; exact a2, fun c hc => ?_⟩
    obtain ⟨x1, x2, x3, x4⟩ := f3 c hc
    exact ⟨x1, x2, x3, x4⟩
  have hn1 := ids_round s hn
  have hn2 := ids_round (round s) hn1
  obtain ⟨_, _, b3⟩ := r1 s hn
  obtain ⟨c1, c2, _⟩ := r1 (round s) hn1
  exact r3 _ hn2 c1 c2 (r2 _ hn1 b3)

/-! ## a round is a schedule of the model's own actions; the drain of an epoch is reached, not assumed -/

def isPub : Act → Bool
  | .publishH _ | .publishC _ _ => true
  | _ => false

def QuietM (s t : State) : Prop := ∃ as : List Act, (∀ a ∈ as, isPub a = false) ∧ t = run true s as

theorem quietM_refl (s : State) : QuietM s s := ⟨[], fun _ h => by simp at h, rfl⟩

theorem quietM_trans {a b c : State} (h1 : QuietM a b) (h2 : QuietM b c) : QuietM a c := by
  obtain ⟨l1, w1, e1⟩ := h1
  obtain ⟨l2, w2, e2⟩ := h2
  refine ⟨l1 ++ l2, ?_, ?_⟩
  · intro x hx
    rcases List.mem_append.mp hx with h | h
    · exact w1 x h
    · exact w2 x h
  · rw [e2, e1]; simp [run, List.foldl_append]

theorem quietM_step (s : State) (a : Act) (h : isPub a = false) : QuietM s (step true s a) :=
  ⟨[a], fun x hx => by simp only [List.mem_singleton] at hx; rw [hx]; exact h, rfl⟩

theorem quietM_iter (a : Act) (h : isPub a = false) (n : Nat) (s : State) :
    QuietM s (iter (fun t => step true t a) n s) := by
  induction n generalizing s with
  | zero => exact quietM_refl s
  | succ n ih => exact quietM_trans (quietM_step s a h) (ih _)

theorem quietM_foldl {β : Type} (g : State → β → State) (hg : ∀ t b, QuietM t (g t b)) (l : List β) (s : State) :
    QuietM s (l.foldl g s) := by
  induction l generalizing s with
  | nil => exact quietM_refl s
  | cons b l ih => exact quietM_trans (hg s b) (ih _)

theorem quietM_round (s : State) : QuietM s (round s) := by
  unfold round
  refine quietM_trans ?_ (quietM_foldl _ (fun t i => ?_) _ _)
  · unfold hostPhase hp2 hp1
    exact quietM_trans (quietM_trans (quietM_iter _ rfl _ _)
      (quietM_foldl _ (fun t i => by unfold pollI; exact quietM_iter _ rfl _ _) _ _)) (quietM_iter _ rfl _ _)
  · unfold clientPhase cp2 cp1
    exact quietM_trans (quietM_trans (quietM_iter _ rfl _ _) (quietM_iter _ rfl _ _)) (quietM_iter _ rfl _ _)

theorem quiescence_reached (s : State) (hn : (s.clients.map (·.id)).Nodup) :
    ∃ as : List Act, (∀ a ∈ as, isPub a = false) ∧ Quiescent (run true s as) := by
  obtain ⟨as, hw, he⟩ := quietM_trans (quietM_trans (quietM_round s) (quietM_round _)) (quietM_round _)
  exact ⟨as, hw, he ▸ three_rounds_quiescent s hn⟩

theorem hostWrites_of_quiet (a : Act) (h : isPub a = false) : HostWrites a := by
  cases a <;> simp_all [HostWrites, isPub]

theorem clientWrites_of_quiet (w : Nat) (a : Act) (h : isPub a = false) : ClientWrites w a := by
  cases a <;> simp_all [ClientWrites, isPub]

theorem last_quiet (w : Nat) (y : Option Nat) (more : List Act) (hm : ∀ a ∈ more, isPub a = false) :
    more.foldl (pubOf w) y = y := by
  induction more generalizing y with
  | nil => rfl
  | cons a more ih =>
    have ha : pubOf w y a = y := by
      have := hm a (by simp)
      cases a <;> simp_all [pubOf, isPub]
    simp only [List.foldl_cons, ha]
    exact ih y (fun b hb => hm b (by simp [hb]))

/-- **C06, inline materials, one epoch — the drain is reached, not assumed**: after the publications of one writer, under
any schedule, there is a continuation without publications (three fair rounds) after which every peer holds the last
publication with nothing pending. -/
theorem epoch_total (x : Option Nat) (s : State) (e : Epoch) (hn : (s.clients.map (·.id)).Nodup)
    (hs : Settled x s) (hd : e.disciplined) (hp : e.writer = 0 ∨ ∃ c ∈ s.clients, c.id = e.writer) :
    ∃ more : List Act, (∀ a ∈ more, isPub a = false) ∧ Settled e.last (run true (e.run s) more) := by
  have hn' : ((e.run s).clients.map (·.id)).Nodup := by
    unfold Epoch.run; rw [ids_run, ids_step]; exact hn
  obtain ⟨more, hw, hq⟩ := quiescence_reached (e.run s) hn'
  refine ⟨more, hw, ?_⟩
  -- the same epoch with the quiet continuation appended
  have hrun : run true (e.run s) more = Epoch.run s { e with acts := e.acts ++ more } := by
    simp [Epoch.run, run, List.foldl_append, firstAct]
  have hlast : Epoch.last { e with acts := e.acts ++ more } = e.last := by
    unfold Epoch.last
    simp only [List.foldl_append]
    exact last_quiet e.writer _ more hw
  rw [hrun] at hq ⊢
  rw [← hlast]
  refine epoch_converges x s { e with acts := e.acts ++ more } hn hs ?_ hp hq
  unfold Epoch.disciplined at hd ⊢
  by_cases hw0 : e.writer = 0
  · simp only [hw0, if_true] at hd ⊢
    intro a ha
    rcases List.mem_append.mp ha with h | h
    · exact hd a h
    · exact hostWrites_of_quiet a (hw a h)
  · simp only [hw0, if_false] at hd ⊢
    intro a ha
    rcases List.mem_append.mp ha with h | h
    · exact hd a h
    · exact clientWrites_of_quiet e.writer a (hw a h)

end Mat
end BevySync
