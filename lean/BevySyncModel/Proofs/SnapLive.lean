import BevySyncModel.Proofs.Snap
import BevySyncModel.Proofs.CompLive
/-! The join is completed, not assumed (C03): from **any** state of the snapshot slice, one fair round of the machinery —
the transport accepts the joiner, its snapshot is built, the host detects and reacts, the joiner polls everything, runs
every closure, detects and reacts — ends with the joiner through (`Quiescent`).  The round contains no application write
on the host and no relayed write of another client, so it is allowed in both kinds of epoch. -/
namespace BevySync
namespace Snap
open Comp (iter)

variable {V : Type} [DecidableEq V]

theorem recv_fields (j : Joiner V) (m : Msg V) : (recv j m).connected = j.connected ∧ (recv j m).snapped = j.snapped ∧
    (recv j m).down = j.down ∧ (recv j m).defer = j.defer := by
  cases m
  · simp only [recv]; split <;> exact ⟨rfl, rfl, rfl, rfl⟩
  · simp only [recv]; split <;> exact ⟨rfl, rfl, rfl, rfl⟩

theorem flush_all (n : Nat) (s : State V) (hn : s.j.defer.length = n) :
    (iter (fun t => step t .flushJ) n s).j.defer = [] ∧ (iter (fun t => step t .flushJ) n s).j.down = s.j.down ∧
    (iter (fun t => step t .flushJ) n s).j.snapped = s.j.snapped ∧ (iter (fun t => step t .flushJ) n s).host = s.host := by
  induction n generalizing s with
  | zero => exact ⟨List.eq_nil_of_length_eq_zero hn, rfl, rfl, rfl⟩
  | succ n ih =>
    cases hd : s.j.defer with
    | nil => rw [hd] at hn; cases hn
    | cons m rest =>
      have e : step s .flushJ = { s with j := { (recv s.j m) with defer := rest } } := by simp only [step, hd]
      obtain ⟨r1, r2, r3, _⟩ := recv_fields s.j m
      have hn' : (step s .flushJ).j.defer.length = n := by
        rw [e]; rw [hd] at hn; simpa using hn
      obtain ⟨a, b, c, d⟩ := ih (step s .flushJ) hn'
      simp only [iter]
      refine ⟨a, ?_, ?_, ?_⟩
      · rw [b, e]; exact r3
      · rw [c, e]; exact r2
      · rw [d, e]

/-- one fair round of the join machinery -/
def roundS (s : State V) : State V :=
  let s1 := step (step (step (step s .connect) .snapshot) .detectH) .reactH
  let s2 := step s1 (.pollJ s1.j.down.length)
  let s3 := iter (fun t => step t .flushJ) s2.j.defer.length s2
  step (step s3 .detectJ) .reactJ

theorem snapshot_snapped (s : State V) (h : s.j.connected = true) : (step s .snapshot).j.snapped = true := by
  simp only [step, h, Bool.true_and]
  cases hs : s.j.snapped with
  | true => simp [hs]
  | false => simp

/-- **one fair round ends with the joiner through — from any state whatsoever.** -/
theorem one_round_quiescent (s : State V) : Quiescent (roundS s) := by
  unfold roundS
  dsimp only
  -- after connect + snapshot the joiner's snapshot has been built; detectH / reactH leave the host with nothing to announce
  have hc : (step s .connect).j.connected = true := rfl
  have h1 : (step (step s .connect) .snapshot).j.snapped = true := snapshot_snapped _ hc
  have hs1 : (step (step (step (step s .connect) .snapshot) .detectH) .reactH).j.snapped = true := by
    show (send (step (step s .connect) .snapshot).j _).snapped = true
    rw [(send_fields _ _).2.1]; exact h1
  have hh1 : (step (step (step (step s .connect) .snapshot) .detectH) .reactH).host.p.dirty = false ∧
      (step (step (step (step s .connect) .snapshot) .detectH) .reactH).host.p.queue = [] :=
    ⟨Comp.detect_post _, rfl⟩
  -- poll everything
  have hp : ∀ t : State V, (step t (.pollJ t.j.down.length)).j.down = [] ∧
      (step t (.pollJ t.j.down.length)).j.snapped = t.j.snapped ∧ (step t (.pollJ t.j.down.length)).host = t.host := by
    intro t
    exact ⟨List.drop_eq_nil_of_le (Nat.le_refl _), rfl, rfl⟩
  obtain ⟨p1, p2, p3⟩ := hp (step (step (step (step s .connect) .snapshot) .detectH) .reactH)
  obtain ⟨f1, f2, f3, f4⟩ := flush_all _ (step (step (step (step (step s .connect) .snapshot) .detectH) .reactH)
    (.pollJ (step (step (step (step s .connect) .snapshot) .detectH) .reactH).j.down.length)) rfl
  have tail : ∀ t : State V, (step (step t .detectJ) .reactJ).j.snapped = t.j.snapped ∧
      (step (step t .detectJ) .reactJ).j.defer = t.j.defer ∧ (step (step t .detectJ) .reactJ).j.down = t.j.down ∧
      (step (step t .detectJ) .reactJ).host = t.host ∧ (step (step t .detectJ) .reactJ).j.p.dirty = false ∧
      (step (step t .detectJ) .reactJ).j.p.queue = [] :=
    fun t => ⟨rfl, rfl, rfl, rfl, Comp.detect_post _, rfl⟩
  obtain ⟨t1, t2, t3, t4, t5, t6⟩ := tail (iter (fun t => step t .flushJ)
    (step (step (step (step (step s .connect) .snapshot) .detectH) .reactH)
      (.pollJ (step (step (step (step s .connect) .snapshot) .detectH) .reactH).j.down.length)).j.defer.length
    (step (step (step (step (step s .connect) .snapshot) .detectH) .reactH)
      (.pollJ (step (step (step (step s .connect) .snapshot) .detectH) .reactH).j.down.length)))
  refine ⟨?_, ?_, ?_, t5, t6, ?_, ?_⟩
  · rw [t1, f3, p2]; exact hs1
  · rw [t2]; exact f1
  · rw [t3, f2]; exact p1
  · rw [t4, f4, p3]; exact hh1.1
  · rw [t4, f4, p3]; exact hh1.2

/-- the round is a schedule of the slice's own actions, none of them a write on the host or a relayed write -/
theorem roundS_is_run (s : State V) : ∃ as : List (Act V), (∀ mode, ∀ a ∈ as, Allowed mode a) ∧ roundS s = run s as := by
  have hiter : ∀ (n : Nat) (t : State V), ∃ as : List (Act V), (∀ a ∈ as, a = .flushJ) ∧
      iter (fun t => step t .flushJ) n t = run t as := by
    intro n
    induction n with
    | zero => intro t; exact ⟨[], fun _ h => by simp at h, rfl⟩
    | succ n ih =>
      intro t
      obtain ⟨as, h1, h2⟩ := ih (step t .flushJ)
      refine ⟨.flushJ :: as, ?_, ?_⟩
      · intro a ha
        simp only [List.mem_cons] at ha
        rcases ha with rfl | ha
        · rfl
        · exact h1 a ha
      · simp only [iter, h2, run, List.foldl_cons]
  unfold roundS
  dsimp only
  obtain ⟨fl, hfl, efl⟩ := hiter
    (step (step (step (step (step s .connect) .snapshot) .detectH) .reactH)
      (.pollJ (step (step (step (step s .connect) .snapshot) .detectH) .reactH).j.down.length)).j.defer.length
    (step (step (step (step (step s .connect) .snapshot) .detectH) .reactH)
      (.pollJ (step (step (step (step s .connect) .snapshot) .detectH) .reactH).j.down.length))
  refine ⟨[.connect, .snapshot, .detectH, .reactH,
    .pollJ (step (step (step (step s .connect) .snapshot) .detectH) .reactH).j.down.length] ++ fl ++ [.detectJ, .reactJ], ?_, ?_⟩
  · intro mode a ha
    simp only [List.mem_append, List.mem_cons, List.mem_singleton, List.not_mem_nil, or_false] at ha
    rcases ha with (ha | ha) | ha
    · rcases ha with rfl | rfl | rfl | rfl | rfl <;> trivial
    · rw [hfl a ha]; trivial
    · rcases ha with rfl | rfl <;> trivial
  · rw [efl]
    simp [run, List.foldl_append]

/-- **C03 without the hypothesis that the joiner gets through**: after any interleaving of an epoch (host-writer or relay),
one fair round of the machinery completes the join, and the joiner then holds the entity iff the host does, one replica, the
host's value, having announced nothing itself -/
theorem joiner_converges_total (mode : Bool) (s : State V) (as : List (Act V)) (hi : Inv mode s)
    (ha : ∀ a ∈ as, Allowed mode a) :
    ∃ more : List (Act V), (∀ a ∈ more, Allowed mode a) ∧
      let t := run (run s as) more
      (t.host.present = true → t.j.present = true ∧ t.j.count = 1) ∧
      (t.host.present = false → t.j.present = false ∧ t.j.count = 0) ∧
      (∀ v, t.host.p.val = some v → t.j.p.val = some v) ∧ t.j.up = [] := by
  obtain ⟨more, hal, he⟩ := roundS_is_run (run s as)
  refine ⟨more, hal mode, ?_⟩
  have hq : Quiescent (run (run s as) more) := he ▸ one_round_quiescent (run s as)
  have e : run (run s as) more = run s (as ++ more) := by simp [run, List.foldl_append]
  rw [e] at hq ⊢
  exact inv_quiescent mode _ (inv_run mode s (as ++ more) hi (fun a h => by
    rcases List.mem_append.mp h with h | h
    · exact ha a h
    · exact hal mode a h)) hq

end Snap
end BevySync
