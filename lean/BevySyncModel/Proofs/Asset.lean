import BevySyncModel.Slice.Asset
/-! Invariants of the asset slice: an epoch in which one peer publishes / overwrites the uuid asset
(host writer, client writer) converges on every schedule of reactions, deliveries, downloads and
applications. -/
namespace BevySync
namespace Asset

theorem mem_onClient {i : Nat} {f : Client → Client} {cs : List Client} {c' : Client}
    (h : c' ∈ onClient i f cs) : ∃ c ∈ cs, c' = if c.id = i then f c else c := by
  unfold onClient at h
  obtain ⟨c, hc, rfl⟩ := List.mem_map.mp h
  exact ⟨c, hc, rfl⟩

theorem forall_onClient {P : Client → Prop} (i : Nat) (f : Client → Client) (cs : List Client)
    (h : ∀ c ∈ cs, c.id ≠ i → P c) (hf : ∀ c ∈ cs, c.id = i → P (f c)) : ∀ c' ∈ onClient i f cs, P c' := by
  intro c' hc'
  obtain ⟨c, hc, rfl⟩ := mem_onClient hc'
  by_cases hi : c.id = i
  · rw [if_pos hi]; exact hf c hc hi
  · rw [if_neg hi]; exact h c hc hi

theorem forall_map {P : Client → Prop} (g : Client → Client) (cs : List Client)
    (h : ∀ c ∈ cs, P (g c)) : ∀ c' ∈ cs.map g, P c' := by
  intro c' hc'
  obtain ⟨c, hc, rfl⟩ := List.mem_map.mp hc'
  exact h c hc

theorem findClient_spec {i : Nat} {cs : List Client} {c : Client} (h : findClient i cs = some c) :
    c ∈ cs ∧ c.id = i := by
  unfold findClient at h
  exact ⟨List.mem_of_find?_eq_some h, by simpa using List.find?_some h⟩

/-! ## what a reader satisfies -/

/-- a reader `p` of writer `pw`, `pend` = an announcement or a download of it is still under way -/
def Follows (pw : Peer) (pend : Prop) (p : Peer) : Prop :=
  pend ∨ pw.events > 0 ∨ (p.slot ≠ none ∧ p.slot = pw.served) ∨ (p.slot = none ∧ p.content = pw.served)

/-- the writer: never debounces, never downloads, and its cache is fresh once its events are handled -/
def Writer (pw : Peer) : Prop :=
  pw.tokens = 0 ∧ pw.jobs = [] ∧ pw.slot = none ∧ pw.content ≠ none ∧ (pw.events = 0 → pw.served = pw.content)

theorem react_reader (p : Peer) (h : p.tokens = p.events) :
    (react p).2 = false ∧ (react p).1.tokens = (react p).1.events ∧ (react p).1.content = p.content ∧
    (react p).1.slot = p.slot ∧ (react p).1.jobs = p.jobs ∧ (react p).1.served = p.served := by
  unfold react
  by_cases h0 : p.events = 0
  · simp [h0, h]
  · have : p.tokens > 0 := by omega
    simp [h0, this]; omega

theorem process_reader (p : Peer) (h : p.tokens = p.events) :
    (process true p).tokens = (process true p).events ∧ (process true p).jobs = p.jobs ∧
    (process true p).served = p.served := by
  unfold process
  cases p.slot <;> simp [h]

theorem process_follows (pw p : Peer) (pend : Prop) (h : Follows pw pend p) : Follows pw pend (process true p) := by
  unfold process
  cases hs : p.slot with
  | none => simpa using h
  | some v =>
    rcases h with h | h | h | h
    · exact Or.inl h
    · exact Or.inr (Or.inl h)
    · right; right; right
      simp only [true_and]
      rw [← h.2, hs]
    · rw [hs] at h; simp at h

/-! ## host-writer epoch -/

def HClientOk (h : Peer) (c : Client) : Prop :=
  c.up = [] ∧ c.p.tokens = c.p.events ∧ (∀ o ∈ c.down ++ c.p.jobs, o = 0) ∧
  Follows h (c.down ≠ [] ∨ c.p.jobs ≠ []) c.p

def HInv (s : State) : Prop := Writer s.host ∧ ∀ c ∈ s.clients, HClientOk s.host c

def HostWrites : Act → Prop
  | .publishC _ _ => False
  | _ => True

theorem follows_mono {pw p : Peer} {a b : Prop} (hab : a → b) (h : Follows pw a p) : Follows pw b p := by
  rcases h with h | h | h | h
  · exact Or.inl (hab h)
  · exact Or.inr (Or.inl h)
  · exact Or.inr (Or.inr (Or.inl h))
  · exact Or.inr (Or.inr (Or.inr h))

theorem hinv_step (s : State) (a : Act) (hi : HInv s) (ha : HostWrites a) : HInv (step true false s a) := by
  obtain ⟨⟨wt, wj, ws, wc, we⟩, hc⟩ := hi
  cases a with
  | publishH v =>
    refine ⟨⟨wt, wj, ws, by simp [step, publish], fun h => by simp [step, publish] at h⟩, fun c hcm => ?_⟩
    obtain ⟨a1, a2, a3, _⟩ := hc c hcm
    exact ⟨a1, a2, a3, Or.inr (Or.inl (by simp [step, publish]))⟩
  | reactH =>
    by_cases h0 : s.host.events = 0
    · have e : react s.host = (s.host, false) := by simp [react, h0]
      simp only [step, e, Bool.false_eq_true, if_false]
      exact ⟨⟨wt, wj, ws, wc, we⟩, hc⟩
    · have e : react s.host = ({ s.host with events := s.host.events - 1, served := s.host.content }, true) := by
        simp [react, h0, wt]
      simp only [step, e, if_true]
      refine ⟨⟨wt, wj, ws, wc, fun _ => rfl⟩, ?_⟩
      apply forall_map
      intro c hcm
      obtain ⟨a1, a2, a3, _⟩ := hc c hcm
      refine ⟨a1, a2, ?_, Or.inl (Or.inl (by simp))⟩
      intro o ho
      simp only [List.mem_append, List.mem_singleton] at ho
      rcases ho with (ho | ho) | ho
      · exact a3 o (List.mem_append_left _ ho)
      · exact ho
      · exact a3 o (List.mem_append_right _ ho)
  | pollH i =>
    cases hf : findClient i s.clients with
    | none => simp only [step, hf]; exact ⟨⟨wt, wj, ws, wc, we⟩, hc⟩
    | some c =>
      have hup : c.up = [] := (hc c (findClient_spec hf).1).1
      simp only [step, hf, hup]
      exact ⟨⟨wt, wj, ws, wc, we⟩, hc⟩
  | fetchH =>
    have e : fetch s s.host = s.host := by simp [fetch, wj]
    simp only [step, e]
    exact ⟨⟨wt, wj, ws, wc, we⟩, hc⟩
  | processH =>
    have e : process true s.host = s.host := by simp [process, ws]
    simp only [step, e]
    exact ⟨⟨wt, wj, ws, wc, we⟩, hc⟩
  | publishC i v => exact absurd ha (by simp [HostWrites])
  | reactC i =>
    refine ⟨⟨wt, wj, ws, wc, we⟩, ?_⟩
    simp only [step]
    apply forall_onClient
    · intro c hcm _; exact hc c hcm
    · intro c hcm _
      obtain ⟨a1, a2, a3, a4⟩ := hc c hcm
      obtain ⟨r1, r2, r3, r4, r5, r6⟩ := react_reader c.p a2
      simp only [cReact, r1, Bool.false_eq_true, if_false]
      refine ⟨a1, r2, by rw [r5]; exact a3, ?_⟩
      unfold Follows at a4 ⊢
      rw [r3, r4, r5]; exact a4
  | pollC i =>
    refine ⟨⟨wt, wj, ws, wc, we⟩, ?_⟩
    simp only [step]
    apply forall_onClient
    · intro c hcm _; exact hc c hcm
    · intro c hcm _
      obtain ⟨a1, a2, a3, a4⟩ := hc c hcm
      cases hd : c.down with
      | nil => simp only [cPoll, hd]; exact ⟨a1, a2, a3, a4⟩
      | cons o rest =>
        simp only [cPoll, hd, request, Bool.false_and, Bool.false_eq_true, if_false]
        rw [hd] at a3
        refine ⟨a1, a2, ?_, Or.inl (Or.inr (by simp))⟩
        intro o' ho'
        simp only [List.mem_append, List.mem_singleton] at ho'
        rcases ho' with ho' | ho' | ho'
        · exact a3 o' (by simp [ho'])
        · exact a3 o' (by simp [ho'])
        · rw [ho']; exact a3 o (by simp)
  | fetchC i =>
    refine ⟨⟨wt, wj, ws, wc, we⟩, ?_⟩
    simp only [step]
    apply forall_onClient
    · intro c hcm _; exact hc c hcm
    · intro c hcm _
      simp only [cFetch]
      obtain ⟨a1, a2, a3, a4⟩ := hc c hcm
      cases hj : c.p.jobs with
      | nil =>
        have e : fetch s c.p = c.p := by simp [fetch, hj]
        rw [e]; exact ⟨a1, a2, a3, a4⟩
      | cons o rest =>
        have ho : o = 0 := a3 o (by simp [hj])
        have a3' : ∀ o' ∈ c.down ++ rest, o' = 0 := by
          intro o' ho'
          apply a3 o'
          simp only [List.mem_append] at ho' ⊢
          rcases ho' with ho' | ho'
          · exact Or.inl ho'
          · right; rw [hj]; exact List.mem_cons_of_mem _ ho'
        have hsv : servedBy s o = s.host.served := by simp [servedBy, ho]
        cases hserved : s.host.served with
        | none =>
          have hev : s.host.events > 0 := by
            by_cases h0 : s.host.events = 0
            · have := we h0; rw [hserved] at this; exact absurd this.symm wc
            · omega
          have e : fetch s c.p = { c.p with jobs := rest } := by simp [fetch, landed, hj, hsv, hserved]
          rw [e]
          exact ⟨a1, a2, a3', Or.inr (Or.inl hev)⟩
        | some v =>
          have e : fetch s c.p = { c.p with jobs := rest, slot := some v } := by simp [fetch, landed, hj, hsv, hserved]
          rw [e]
          refine ⟨a1, a2, a3', ?_⟩
          right; right; left
          simp [hserved]
  | processC i =>
    refine ⟨⟨wt, wj, ws, wc, we⟩, ?_⟩
    simp only [step]
    apply forall_onClient
    · intro c hcm _; exact hc c hcm
    · intro c hcm _
      simp only [cProcess]
      obtain ⟨a1, a2, a3, a4⟩ := hc c hcm
      obtain ⟨p1, p2, _⟩ := process_reader c.p a2
      refine ⟨a1, p1, by rw [p2]; exact a3, ?_⟩
      have := process_follows s.host c.p _ a4
      rw [p2]; exact this

  | snapshotH i =>
    simp only [step]
    cases hcont : s.host.content with
    | none => exact absurd hcont wc
    | some v0 =>
      simp only [Option.isSome_some, if_true]
      have hserve : snapServe s.host = { s.host with served := s.host.content } := by simp [snapServe, hcont]
      rw [hserve]
      refine ⟨⟨wt, wj, ws, wc, fun _ => rfl⟩, ?_⟩
      -- every client still follows the host: its cache now equals its content, which it already did when no event is pending
      have hfol : ∀ c ∈ s.clients, ∀ pend : Prop, Follows s.host pend c.p →
          Follows { s.host with served := s.host.content } pend c.p := by
        intro c _ pend h
        rcases h with h | h | h | h
        · exact Or.inl h
        · exact Or.inr (Or.inl h)
        · by_cases h0 : s.host.events = 0
          · right; right; left; rw [we h0] at h; exact h
          · right; left; show s.host.events > 0; omega
        · by_cases h0 : s.host.events = 0
          · right; right; right; rw [we h0] at h; exact h
          · right; left; show s.host.events > 0; omega
      apply forall_onClient
      · intro c hcm _
        obtain ⟨a1, a2, a3, a4⟩ := hc c hcm
        exact ⟨a1, a2, a3, hfol c hcm _ a4⟩
      · intro c hcm _
        obtain ⟨a1, a2, a3, _⟩ := hc c hcm
        refine ⟨a1, a2, ?_, Or.inl (Or.inl (by simp [cSnapshot]))⟩
        intro o ho
        simp only [cSnapshot, List.mem_append, List.mem_singleton] at ho
        rcases ho with (ho | ho) | ho
        · exact a3 o (List.mem_append_left _ ho)
        · exact ho
        · exact a3 o (List.mem_append_right _ ho)

-- the `snapshotH` case: a join during a host-writer epoch keeps the invariant
theorem hinv_run (s : State) (as : List Act) (hi : HInv s) (ha : ∀ a ∈ as, HostWrites a) :
    HInv (run true false s as) := by
  induction as generalizing s with
  | nil => exact hi
  | cons a as ih =>
    exact ih _ (hinv_step s a hi (ha a (by simp))) (fun b hb => ha b (by simp [hb]))

theorem hinv_settled (s : State) (hi : HInv s) (hq : Quiescent s) : Settled s.host.content s := by
  obtain ⟨⟨wt, wj, ws, wc, we⟩, hc⟩ := hi
  obtain ⟨⟨q1, q2, q3⟩, qc⟩ := hq
  refine ⟨⟨rfl, q1, wt, ws, wj⟩, fun c hcm => ?_⟩
  obtain ⟨a1, a2, a3, a4⟩ := hc c hcm
  obtain ⟨⟨c1, c2, c3⟩, c4, c5⟩ := qc c hcm
  refine ⟨⟨?_, c1, by omega, c2, c3⟩, c4, c5⟩
  rcases a4 with (h | h) | h | h | h
  · exact absurd c5 h
  · exact absurd c3 h
  · omega
  · exact absurd c2 h.1
  · rw [h.2]; exact we q1

theorem hinv_start (x : Option Nat) (s : State) (v : Nat) (hs : Settled x s) : HInv (step true false s (.publishH v)) := by
  obtain ⟨⟨h1, h2, h3, h4, h5⟩, hc⟩ := hs
  refine ⟨⟨h3, h5, h4, by simp [step, publish], fun h => by simp [step, publish] at h⟩, fun c hcm => ?_⟩
  obtain ⟨⟨c1, c2, c3, c4, c5⟩, c6, c7⟩ := hc c hcm
  refine ⟨c6, by omega, by simp [c7, c5], Or.inr (Or.inl (by simp [step, publish]))⟩

/-! ## client-writer epoch -/

theorem findClient_of_mem {w : Nat} {cs : List Client} {cw : Client} (hn : (cs.map (·.id)).Nodup)
    (hm : cw ∈ cs) (hw : cw.id = w) : findClient w cs = some cw := by
  induction cs with
  | nil => cases hm
  | cons a cs ih =>
    simp only [List.map_cons, List.nodup_cons] at hn
    unfold findClient
    rw [List.find?_cons]
    rcases List.mem_cons.mp hm with rfl | hm'
    · simp [hw]
    · have hne : a.id ≠ w := by
        intro h
        apply hn.1
        rw [h, ← hw]
        exact List.mem_map.mpr ⟨cw, hm', rfl⟩
      simp only [hne, decide_false]
      exact ih hn.2 hm'

def CW (w : Nat) (host : Peer) (cw : Client) : Prop :=
  Writer cw.p ∧ cw.down = [] ∧ (∀ o ∈ cw.up, o = w) ∧ Follows cw.p (cw.up ≠ [] ∨ host.jobs ≠ []) host

def CR (w : Nat) (cw c : Client) : Prop :=
  c.up = [] ∧ c.p.tokens = c.p.events ∧ (∀ o ∈ c.down ++ c.p.jobs, o = w) ∧
  Follows cw.p (cw.up ≠ [] ∨ c.down ≠ [] ∨ c.p.jobs ≠ []) c.p

def CInv (w : Nat) (s : State) : Prop :=
  s.host.tokens = s.host.events ∧ (∀ o ∈ s.host.jobs, o = w) ∧
  ∀ cw ∈ s.clients, cw.id = w → CW w s.host cw ∧ ∀ c ∈ s.clients, c.id ≠ w → CR w cw c

def ClientWrites (w : Nat) : Act → Prop
  | .publishH _ => False
  | .publishC i _ => i = w
  | .snapshotH _ => False     -- a snapshot taken while the host is only a reader of the uuid is the recorded finding D17
  | _ => True

/-- the clients of the next state are the image of the old ones under an id-preserving map -/
theorem cinv_map {w : Nat} {g : Client → Client} (hid : ∀ c, (g c).id = c.id) {cs : List Client}
    {P P' : Client → Prop} {Q Q' : Client → Client → Prop}
    (h : ∀ cw ∈ cs, cw.id = w → P cw ∧ ∀ c ∈ cs, c.id ≠ w → Q cw c)
    (hP : ∀ cw ∈ cs, cw.id = w → P cw → P' (g cw))
    (hQ : ∀ cw ∈ cs, ∀ c ∈ cs, cw.id = w → c.id ≠ w → P cw → Q cw c → Q' (g cw) (g c)) :
    ∀ cw' ∈ cs.map g, cw'.id = w → P' cw' ∧ ∀ c' ∈ cs.map g, c'.id ≠ w → Q' cw' c' := by
  intro cw' hcw' hw'
  obtain ⟨cw, hcw, rfl⟩ := List.mem_map.mp hcw'
  rw [hid] at hw'
  obtain ⟨hp, hq⟩ := h cw hcw hw'
  refine ⟨hP cw hcw hw' hp, fun c' hc' hne' => ?_⟩
  obtain ⟨c, hc, rfl⟩ := List.mem_map.mp hc'
  rw [hid] at hne'
  exact hQ cw hcw c hc hw' hne' hp (hq c hc hne')

theorem follows_fetch (pw p : Peer) (rest : List Nat) (pend : Prop) (hw : Writer pw) :
    Follows pw pend (landed p rest pw.served) := by
  obtain ⟨_, _, _, wc, we⟩ := hw
  cases hserved : pw.served with
  | none =>
    right; left
    by_cases h0 : pw.events = 0
    · have := we h0; rw [hserved] at this; exact absurd this.symm wc
    · omega
  | some v => right; right; left; simp [landed, hserved]

theorem landed_jobs (p : Peer) (rest : List Nat) (sv : Option Nat) : (landed p rest sv).jobs = rest := by
  cases sv <;> rfl

theorem fetch_eq (s : State) (p : Peer) (o : Nat) (rest : List Nat) (hj : p.jobs = o :: rest) :
    fetch s p = landed p rest (servedBy s o) := by
  simp [fetch, hj]

theorem fetch_fields (s : State) (p : Peer) :
    (fetch s p).tokens = p.tokens ∧ (fetch s p).events = p.events ∧ (fetch s p).served = p.served ∧
    (fetch s p).content = p.content := by
  unfold fetch
  split
  · simp
  · unfold landed; split <;> simp

theorem cinv_step (w : Nat) (hw0 : w ≠ 0) (s : State) (a : Act) (hn : (s.clients.map (·.id)).Nodup)
    (hp : ∃ cw ∈ s.clients, cw.id = w) (hi : CInv w s) (ha : ClientWrites w a) : CInv w (step true false s a) := by
  obtain ⟨ht, hj, hc⟩ := hi
  cases a with
  | publishH v => exact absurd ha (by simp [ClientWrites])
  | snapshotH i => exact absurd ha (by simp [ClientWrites])
  | reactH =>
    obtain ⟨r1, r2, r3, r4, r5, r6⟩ := react_reader s.host ht
    simp only [step, r1, Bool.false_eq_true, if_false]
    refine ⟨r2, by rw [r5]; exact hj, fun cw hcw hw => ?_⟩
    obtain ⟨⟨c1, c2, c3, c4⟩, hr⟩ := hc cw hcw hw
    refine ⟨⟨c1, c2, c3, ?_⟩, hr⟩
    unfold Follows at c4 ⊢
    rw [r3, r4, r5]; exact c4
  | fetchH =>
    simp only [step]
    obtain ⟨f1, f2, f3, f4⟩ := fetch_fields s s.host
    cases hjobs : s.host.jobs with
    | nil =>
      have e : fetch s s.host = s.host := by simp [fetch, hjobs]
      rw [e]; exact ⟨ht, hj, hc⟩
    | cons o rest =>
      have ho : o = w := hj o (by simp [hjobs])
      refine ⟨by rw [f1, f2]; exact ht, ?_, fun cw hcw hw => ?_⟩
      · rw [fetch_eq s s.host o rest hjobs]
        intro o' ho'
        apply hj o'
        rw [hjobs]
        rw [landed_jobs] at ho'
        exact List.mem_cons_of_mem _ ho'
      · obtain ⟨⟨c1, c2, c3, c4⟩, hr⟩ := hc cw hcw hw
        refine ⟨⟨c1, c2, c3, ?_⟩, hr⟩
        have hsv : servedBy s o = cw.p.served := by
          simp [servedBy, ho, hw0, findClient_of_mem hn hcw hw]
        rw [fetch_eq s s.host o rest hjobs, hsv]
        exact follows_fetch cw.p s.host rest _ c1
  | processH =>
    simp only [step]
    obtain ⟨p1, p2, _⟩ := process_reader s.host ht
    refine ⟨p1, by rw [p2]; exact hj, fun cw hcw hw => ?_⟩
    obtain ⟨⟨c1, c2, c3, c4⟩, hr⟩ := hc cw hcw hw
    refine ⟨⟨c1, c2, c3, ?_⟩, hr⟩
    rw [p2]; exact process_follows cw.p s.host _ c4
  | pollH i =>
    cases hf : findClient i s.clients with
    | none => simp only [step, hf]; exact ⟨ht, hj, hc⟩
    | some ci =>
      obtain ⟨hcim, hcid⟩ := findClient_spec hf
      cases hup : ci.up with
      | nil => simp only [step, hf, hup]; exact ⟨ht, hj, hc⟩
      | cons o rest =>
        obtain ⟨cw0, hcw0, hw0'⟩ := hp
        -- only the writer has anything on its way to the host
        have hiw : ci.id = w := by
          by_cases h : ci.id = w
          · exact h
          · have := ((hc cw0 hcw0 hw0').2 ci hcim h).1
            rw [hup] at this; cases this
        have hci : ci = cw0 := by
          have h1 := findClient_of_mem hn hcim hiw
          have h2 := findClient_of_mem hn hcw0 hw0'
          rw [h1] at h2; exact Option.some.inj h2
        have ho : o = w := (hc ci hcim hiw).1.2.2.1 o (by simp [hup])
        have hi' : i = w := by rw [← hcid]; exact hiw
        simp only [step, hf, hup]
        refine ⟨by simp [request]; exact ht, ?_, ?_⟩
        · intro o' ho'
          simp only [request, Bool.false_and, Bool.false_eq_true, if_false, List.mem_append, List.mem_singleton] at ho'
          rcases ho' with ho' | ho'
          · exact hj o' ho'
          · rw [ho']; exact ho
        · refine cinv_map (P := CW w s.host) (Q := CR w) ?_ hc ?_ ?_
          · intro c; split <;> rfl
          · intro cw hcw hw ⟨c1, c2, c3, c4⟩
            have hcweq : cw = ci := by
              have h1 := findClient_of_mem hn hcim hiw
              have h2 := findClient_of_mem hn hcw hw
              rw [h1] at h2; exact (Option.some.inj h2).symm
            rw [if_pos (by rw [hw, hi'])]
            refine ⟨c1, c2, ?_, Or.inl (Or.inr (by simp [request]))⟩
            intro o' ho'
            apply c3 o'
            rw [hcweq, hup]
            exact List.mem_cons_of_mem _ ho'
          · intro cw hcw c hcm hw hne _ ⟨d1, d2, d3, d4⟩
            rw [if_pos (by rw [hw, hi']), if_neg (by rw [hi']; exact hne)]
            refine ⟨d1, d2, ?_, Or.inl (Or.inr (Or.inl (by simp)))⟩
            intro o' ho'
            simp only [List.mem_append, List.mem_singleton] at ho'
            rcases ho' with (ho' | ho') | ho'
            · exact d3 o' (List.mem_append_left _ ho')
            · rw [ho']; exact ho
            · exact d3 o' (List.mem_append_right _ ho')
  | publishC i v =>
    have hi' : i = w := ha
    simp only [step]
    refine ⟨ht, hj, ?_⟩
    unfold onClient
    refine cinv_map (P := CW w s.host) (Q := CR w) ?_ hc ?_ ?_
    · intro c; split <;> rfl
    · intro cw hcw hw ⟨⟨w1, w2, w3, w4, w5⟩, c2, c3, c4⟩
      rw [if_pos (by rw [hw, hi'])]
      exact ⟨⟨w1, w2, w3, by simp [cPublish, publish], fun h => by simp [cPublish, publish] at h⟩, c2, c3,
        Or.inr (Or.inl (by simp [cPublish, publish]))⟩
    · intro cw hcw c hcm hw hne _ ⟨d1, d2, d3, d4⟩
      rw [if_pos (by rw [hw, hi']), if_neg (by rw [hi']; exact hne)]
      exact ⟨d1, d2, d3, Or.inr (Or.inl (by simp [cPublish, publish]))⟩
  | reactC i =>
    simp only [step]
    refine ⟨ht, hj, ?_⟩
    unfold onClient
    by_cases hi' : i = w
    · refine cinv_map (P := CW w s.host) (Q := CR w) ?_ hc ?_ ?_
      · intro c; unfold cReact; split
        · split <;> rfl
        · rfl
      · intro cw hcw hw ⟨⟨w1, w2, w3, w4, w5⟩, c2, c3, c4⟩
        rw [if_pos (by rw [hw, hi'])]
        by_cases h0 : cw.p.events = 0
        · have e : react cw.p = (cw.p, false) := by simp [react, h0]
          simp only [cReact, e, Bool.false_eq_true, if_false]; exact ⟨⟨w1, w2, w3, w4, w5⟩, c2, c3, c4⟩
        · have e : react cw.p = ({ cw.p with events := cw.p.events - 1, served := cw.p.content }, true) := by
            simp [react, h0, w1]
          simp only [cReact, e, if_true]
          refine ⟨⟨w1, w2, w3, w4, fun _ => rfl⟩, c2, ?_, Or.inl (Or.inl (by simp))⟩
          intro o' ho'
          simp only [List.mem_append, List.mem_singleton] at ho'
          rcases ho' with ho' | ho'
          · exact c3 o' ho'
          · rw [ho']; exact hw
      · intro cw hcw c hcm hw hne ⟨⟨w1, w2, w3, w4, w5⟩, c2, c3, c4⟩ ⟨d1, d2, d3, d4⟩
        rw [if_pos (by rw [hw, hi']), if_neg (by rw [hi']; exact hne)]
        by_cases h0 : cw.p.events = 0
        · have e : react cw.p = (cw.p, false) := by simp [react, h0]
          simp only [cReact, e, Bool.false_eq_true, if_false]; exact ⟨d1, d2, d3, d4⟩
        · have e : react cw.p = ({ cw.p with events := cw.p.events - 1, served := cw.p.content }, true) := by
            simp [react, h0, w1]
          simp only [cReact, e, if_true]
          exact ⟨d1, d2, d3, Or.inl (Or.inl (by simp))⟩
    · refine cinv_map (P := CW w s.host) (Q := CR w) ?_ hc ?_ ?_
      · intro c; unfold cReact; split
        · split <;> rfl
        · rfl
      · intro cw hcw hw hcwp
        rw [if_neg (by rw [hw]; exact fun h => hi' h.symm)]
        exact hcwp
      · intro cw hcw c hcm hw hne _ ⟨d1, d2, d3, d4⟩
        rw [if_neg (by rw [hw]; exact fun h => hi' h.symm)]
        by_cases hci : c.id = i
        · rw [if_pos hci]
          obtain ⟨r1, r2, r3, r4, r5, r6⟩ := react_reader c.p d2
          simp only [cReact, r1, Bool.false_eq_true, if_false]
          refine ⟨d1, r2, by rw [r5]; exact d3, ?_⟩
          unfold Follows at d4 ⊢
          rw [r3, r4, r5]; exact d4
        · rw [if_neg hci]; exact ⟨d1, d2, d3, d4⟩
  | pollC i =>
    simp only [step]
    refine ⟨ht, hj, ?_⟩
    unfold onClient
    refine cinv_map (P := CW w s.host) (Q := CR w) ?_ hc ?_ ?_
    · intro c; unfold cPoll; split
      · split <;> rfl
      · rfl
    · intro cw hcw hw ⟨c1, c2, c3, c4⟩
      have ecw : cPoll false cw = cw := by simp [cPoll, c2]
      split
      · rw [ecw]; exact ⟨c1, c2, c3, c4⟩
      · exact ⟨c1, c2, c3, c4⟩
    · intro cw hcw c hcm hw hne ⟨c1, c2, c3, c4⟩ ⟨d1, d2, d3, d4⟩
      have ecw : (if cw.id = i then cPoll false cw else cw) = cw := by
        split
        · simp [cPoll, c2]
        · rfl
      rw [ecw]
      by_cases hci : c.id = i
      · rw [if_pos hci]
        cases hd : c.down with
        | nil => simp only [cPoll, hd]; exact ⟨d1, d2, d3, d4⟩
        | cons o rest =>
          simp only [cPoll, hd, request, Bool.false_and, Bool.false_eq_true, if_false]
          rw [hd] at d3
          refine ⟨d1, d2, ?_, Or.inl (Or.inr (Or.inr (by simp)))⟩
          intro o' ho'
          simp only [List.mem_append, List.mem_singleton] at ho'
          rcases ho' with ho' | ho' | ho'
          · exact d3 o' (by simp [ho'])
          · exact d3 o' (by simp [ho'])
          · rw [ho']; exact d3 o (by simp)
      · rw [if_neg hci]; exact ⟨d1, d2, d3, d4⟩
  | fetchC i =>
    simp only [step]
    refine ⟨ht, hj, ?_⟩
    unfold onClient
    refine cinv_map (P := CW w s.host) (Q := CR w) ?_ hc ?_ ?_
    · intro c; split <;> rfl
    · intro cw hcw hw ⟨⟨w1, w2, w3, w4, w5⟩, c2, c3, c4⟩
      have e : cFetch s cw = cw := by simp [cFetch, fetch, w2]
      split
      · rw [e]; exact ⟨⟨w1, w2, w3, w4, w5⟩, c2, c3, c4⟩
      · exact ⟨⟨w1, w2, w3, w4, w5⟩, c2, c3, c4⟩
    · intro cw hcw c hcm hw hne ⟨⟨w1, w2, w3, w4, w5⟩, c2, c3, c4⟩ ⟨d1, d2, d3, d4⟩
      have ecw : (if cw.id = i then cFetch s cw else cw) = cw := by
        split
        · simp [cFetch, fetch, w2]
        · rfl
      rw [ecw]
      by_cases hci : c.id = i
      · rw [if_pos hci]
        simp only [cFetch]
        obtain ⟨f1, f2, f3, f4⟩ := fetch_fields s c.p
        cases hjobs : c.p.jobs with
        | nil =>
          have e : fetch s c.p = c.p := by simp [fetch, hjobs]
          rw [e]; exact ⟨d1, d2, d3, d4⟩
        | cons o rest =>
          have ho : o = w := d3 o (by simp [hjobs])
          have hsv : servedBy s o = cw.p.served := by
            simp [servedBy, ho, hw0, findClient_of_mem hn hcw hw]
          refine ⟨d1, by rw [f1, f2]; exact d2, ?_, ?_⟩
          · rw [fetch_eq s c.p o rest hjobs]
            intro o' ho'
            apply d3 o'
            simp only [landed_jobs, List.mem_append] at ho' ⊢
            rcases ho' with ho' | ho'
            · exact Or.inl ho'
            · right; rw [hjobs]; exact List.mem_cons_of_mem _ ho'
          · rw [fetch_eq s c.p o rest hjobs, hsv]
            exact follows_fetch cw.p c.p rest _ ⟨w1, w2, w3, w4, w5⟩
      · rw [if_neg hci]; exact ⟨d1, d2, d3, d4⟩
  | processC i =>
    simp only [step]
    refine ⟨ht, hj, ?_⟩
    unfold onClient
    refine cinv_map (P := CW w s.host) (Q := CR w) ?_ hc ?_ ?_
    · intro c; split <;> rfl
    · intro cw hcw hw ⟨⟨w1, w2, w3, w4, w5⟩, c2, c3, c4⟩
      have e : cProcess true cw = cw := by simp [cProcess, process, w3]
      split
      · rw [e]; exact ⟨⟨w1, w2, w3, w4, w5⟩, c2, c3, c4⟩
      · exact ⟨⟨w1, w2, w3, w4, w5⟩, c2, c3, c4⟩
    · intro cw hcw c hcm hw hne ⟨⟨w1, w2, w3, w4, w5⟩, c2, c3, c4⟩ ⟨d1, d2, d3, d4⟩
      have ecw : (if cw.id = i then cProcess true cw else cw) = cw := by
        split
        · simp [cProcess, process, w3]
        · rfl
      rw [ecw]
      by_cases hci : c.id = i
      · rw [if_pos hci]
        simp only [cProcess]
        obtain ⟨p1, p2, _⟩ := process_reader c.p d2
        refine ⟨d1, p1, by rw [p2]; exact d3, ?_⟩
        have := process_follows cw.p c.p _ d4
        rw [p2]; exact this
      · rw [if_neg hci]; exact ⟨d1, d2, d3, d4⟩

theorem ids_step (ct sk : Bool) (s : State) (a : Act) :
    (step ct sk s a).clients.map (·.id) = s.clients.map (·.id) := by
  have hmap : ∀ (g : Client → Client), (∀ c, (g c).id = c.id) → (s.clients.map g).map (·.id) = s.clients.map (·.id) := by
    intro g hg
    rw [List.map_map]
    apply List.map_congr_left
    intro c _
    exact hg c
  have hon : ∀ (i : Nat) (f : Client → Client), (∀ c, (f c).id = c.id) →
      (onClient i f s.clients).map (·.id) = s.clients.map (·.id) := by
    intro i f hf
    apply hmap
    intro c; split
    · exact hf c
    · rfl
  cases a with
  | publishH v => rfl
  | snapshotH i =>
    simp only [step]
    split
    · exact hon i _ (fun _ => rfl)
    · rfl
  | reactH =>
    simp only [step]
    split
    · exact hmap _ (fun _ => rfl)
    · rfl
  | pollH i =>
    simp only [step]
    split
    · split
      · rfl
      · apply hmap; intro c; split <;> rfl
    · rfl
  | fetchH => rfl
  | processH => rfl
  | publishC i v => exact hon i _ (fun _ => rfl)
  | reactC i => exact hon i _ (fun c => by unfold cReact; split <;> rfl)
  | pollC i => exact hon i _ (fun c => by unfold cPoll; split <;> rfl)
  | fetchC i => exact hon i _ (fun _ => rfl)
  | processC i => exact hon i _ (fun _ => rfl)

theorem ids_run (ct sk : Bool) (s : State) (as : List Act) :
    (run ct sk s as).clients.map (·.id) = s.clients.map (·.id) := by
  induction as generalizing s with
  | nil => rfl
  | cons a as ih => exact (ih (step ct sk s a)).trans (ids_step ct sk s a)

theorem present_of_ids {w : Nat} {cs cs' : List Client} (h : cs'.map (·.id) = cs.map (·.id))
    (hp : ∃ c ∈ cs, c.id = w) : ∃ c ∈ cs', c.id = w := by
  obtain ⟨c, hc, hw⟩ := hp
  have : w ∈ cs.map (·.id) := List.mem_map.mpr ⟨c, hc, hw⟩
  rw [← h] at this
  obtain ⟨c', hc', hw'⟩ := List.mem_map.mp this
  exact ⟨c', hc', hw'⟩

theorem cinv_run (w : Nat) (hw0 : w ≠ 0) (s : State) (as : List Act) (hn : (s.clients.map (·.id)).Nodup)
    (hp : ∃ cw ∈ s.clients, cw.id = w) (hi : CInv w s) (ha : ∀ a ∈ as, ClientWrites w a) :
    CInv w (run true false s as) := by
  induction as generalizing s with
  | nil => exact hi
  | cons a as ih =>
    have hids := ids_step true false s a
    exact ih _ (by rw [hids]; exact hn) (present_of_ids hids hp)
      (cinv_step w hw0 s a hn hp hi (ha a (by simp))) (fun b hb => ha b (by simp [hb]))

theorem cinv_start (w : Nat) (x : Option Nat) (s : State) (v : Nat) (hs : Settled x s) :
    CInv w (step true false s (.publishC w v)) := by
  obtain ⟨⟨h1, h2, h3, h4, h5⟩, hc⟩ := hs
  refine ⟨by simp [step]; omega, by simp [step, h5], ?_⟩
  simp only [step]
  unfold onClient
  intro cw' hcw' hw'
  obtain ⟨cw, hcw, rfl⟩ := List.mem_map.mp hcw'
  have hidw : cw.id = w := by
    by_cases h : cw.id = w
    · exact h
    · rw [if_neg h] at hw'; exact absurd hw' h
  rw [if_pos hidw]
  obtain ⟨⟨c1, c2, c3, c4, c5⟩, c6, c7⟩ := hc cw hcw
  refine ⟨⟨⟨c3, c5, c4, by simp [cPublish, publish], fun h => by simp [cPublish, publish] at h⟩, c7,
    by simp [cPublish, c6], Or.inr (Or.inl (by simp [cPublish, publish]))⟩, ?_⟩
  intro c' hc' hne'
  obtain ⟨c, hcm, rfl⟩ := List.mem_map.mp hc'
  have hidc : c.id ≠ w := by
    intro h; rw [if_pos h] at hne'; exact hne' h
  rw [if_neg hidc]
  obtain ⟨⟨d1, d2, d3, d4, d5⟩, d6, d7⟩ := hc c hcm
  exact ⟨d6, by omega, by simp [d7, d5], Or.inr (Or.inl (by simp [cPublish, publish]))⟩

/-- the content the writer client holds -/
def contentOf (w : Nat) (s : State) : Option Nat :=
  if w = 0 then s.host.content else (findClient w s.clients).bind (·.p.content)

theorem cinv_settled (w : Nat) (hw0 : w ≠ 0) (s : State) (hn : (s.clients.map (·.id)).Nodup)
    (hp : ∃ cw ∈ s.clients, cw.id = w) (hi : CInv w s) (hq : Quiescent s) : Settled (contentOf w s) s := by
  obtain ⟨ht, hj, hc⟩ := hi
  obtain ⟨cw, hcw, hw⟩ := hp
  obtain ⟨⟨q1, q2, q3⟩, qc⟩ := hq
  obtain ⟨⟨⟨w1, w2, w3, w4, w5⟩, c2, c3, c4⟩, hr⟩ := hc cw hcw hw
  obtain ⟨⟨e1, e2, e3⟩, e4, e5⟩ := qc cw hcw
  have hcont : contentOf w s = cw.p.content := by
    simp [contentOf, hw0, findClient_of_mem hn hcw hw]
  rw [hcont]
  refine ⟨⟨?_, q1, by omega, q2, q3⟩, fun c hcm => ?_⟩
  · rcases c4 with (h | h) | h | h | h
    · exact absurd e4 h
    · exact absurd q3 h
    · omega
    · exact absurd q2 h.1
    · rw [h.2]; exact w5 e1
  · by_cases hcw' : c.id = w
    · have : c = cw := by
        have h1 := findClient_of_mem hn hcm hcw'
        have h2 := findClient_of_mem hn hcw hw
        rw [h1] at h2; exact Option.some.inj h2
      rw [this]
      exact ⟨⟨rfl, e1, w1, w3, w2⟩, e4, e5⟩
    · obtain ⟨d1, d2, d3, d4⟩ := hr c hcm hcw'
      obtain ⟨⟨g1, g2, g3⟩, g4, g5⟩ := qc c hcm
      refine ⟨⟨?_, g1, by omega, g2, g3⟩, g4, g5⟩
      rcases d4 with (h | h | h) | h | h | h
      · exact absurd e4 h
      · exact absurd g5 h
      · exact absurd g3 h
      · omega
      · exact absurd g2 h.1
      · rw [h.2]; exact w5 e1

/-! ## what the writer holds: its last publication -/

def pubOf (w : Nat) (x : Option Nat) : Act → Option Nat
  | .publishH v => if w = 0 then some v else x
  | .publishC i v => if i = w then some v else x
  | _ => x

theorem react_content (p : Peer) : (react p).1.content = p.content := by
  unfold react; split
  · rfl
  · split <;> rfl

theorem host_content_step (s : State) (a : Act) (hi : HInv s) (ha : HostWrites a) :
    (step true false s a).host.content = pubOf 0 s.host.content a := by
  obtain ⟨⟨wt, wj, ws, wc, we⟩, hc⟩ := hi
  cases a with
  | publishH v => simp [step, publish, pubOf]
  | snapshotH i =>
    simp only [step, pubOf]
    split
    · simp only [snapServe]; split <;> rfl
    · rfl
  | reactH => simp only [step, pubOf]; split <;> exact react_content s.host
  | pollH i =>
    simp only [step, pubOf]
    split
    · split
      · rfl
      · simp [request]
    · rfl
  | fetchH => exact (fetch_fields s s.host).2.2.2
  | processH => simp [step, pubOf, process, ws]
  | publishC i v => exact absurd ha (by simp [HostWrites])
  | reactC i => rfl
  | pollC i => rfl
  | fetchC i => rfl
  | processC i => rfl

theorem host_content_run (s : State) (as : List Act) (hi : HInv s) (ha : ∀ a ∈ as, HostWrites a) :
    (run true false s as).host.content = as.foldl (pubOf 0) s.host.content := by
  induction as generalizing s with
  | nil => rfl
  | cons a as ih =>
    have h1 := hinv_step s a hi (ha a (by simp))
    have := ih _ h1 (fun b hb => ha b (by simp [hb]))
    simp only [run, List.foldl_cons] at this ⊢
    rw [this, host_content_step s a hi (ha a (by simp))]

theorem client_content_step (w : Nat) (hw0 : w ≠ 0) (s : State) (a : Act) (L : Option Nat)
    (hn : (s.clients.map (·.id)).Nodup) (hi : CInv w s) (ha : ClientWrites w a)
    (hL : ∀ c ∈ s.clients, c.id = w → c.p.content = L) :
    ∀ c ∈ (step true false s a).clients, c.id = w → c.p.content = pubOf w L a := by
  have hslot : ∀ c ∈ s.clients, c.id = w → c.p.slot = none := fun c hc hw => (hi.2.2 c hc hw).1.1.2.2.1
  cases a with
  | publishH v => exact absurd ha (by simp [ClientWrites])
  | snapshotH i => exact absurd ha (by simp [ClientWrites])
  | reactH =>
    simp only [step, pubOf]; split
    · apply forall_map
      intro c hc; exact hL c hc
    · exact hL
  | fetchH => exact hL
  | processH => exact hL
  | pollH i =>
    simp only [step, pubOf]
    split
    · split
      · exact hL
      · apply forall_map
        intro c hc
        split
        · exact hL c hc
        · exact hL c hc
    · exact hL
  | publishC i v =>
    have hi' : i = w := ha
    simp only [step, pubOf, hi', if_true]
    apply forall_onClient
    · intro c _ hne hw; exact absurd hw hne
    · intro c _ _ _; simp [cPublish, publish]
  | reactC i =>
    simp only [step, pubOf]
    apply forall_onClient
    · intro c hc _; exact hL c hc
    · intro c hc _ hw
      have : (cReact c).p.content = c.p.content := by
        unfold cReact; split <;> exact react_content c.p
      rw [this]; exact hL c hc (by unfold cReact at hw; split at hw <;> exact hw)
  | pollC i =>
    simp only [step, pubOf]
    apply forall_onClient
    · intro c hc _; exact hL c hc
    · intro c hc _ hw
      have hid : (cPoll false c).id = c.id := by unfold cPoll; split <;> rfl
      have : (cPoll false c).p.content = c.p.content := by
        unfold cPoll; split
        · rfl
        · simp [request]
      rw [this]; exact hL c hc (by rw [← hid]; exact hw)
  | fetchC i =>
    simp only [step, pubOf]
    apply forall_onClient
    · intro c hc _; exact hL c hc
    · intro c hc _ hw
      have : (cFetch s c).p.content = c.p.content := (fetch_fields s c.p).2.2.2
      rw [this]; exact hL c hc hw
  | processC i =>
    simp only [step, pubOf]
    apply forall_onClient
    · intro c hc _; exact hL c hc
    · intro c hc _ hw
      have hw' : c.id = w := hw
      have : (cProcess true c).p.content = c.p.content := by simp [cProcess, process, hslot c hc hw']
      rw [this]; exact hL c hc hw'

theorem client_content_run (w : Nat) (hw0 : w ≠ 0) (s : State) (as : List Act) (L : Option Nat)
    (hn : (s.clients.map (·.id)).Nodup) (hp : ∃ cw ∈ s.clients, cw.id = w) (hi : CInv w s)
    (ha : ∀ a ∈ as, ClientWrites w a) (hL : ∀ c ∈ s.clients, c.id = w → c.p.content = L) :
    ∀ c ∈ (run true false s as).clients, c.id = w → c.p.content = as.foldl (pubOf w) L := by
  induction as generalizing s L with
  | nil => exact hL
  | cons a as ih =>
    have hids := ids_step true false s a
    have h1 := cinv_step w hw0 s a hn hp hi (ha a (by simp))
    exact ih _ _ (by rw [hids]; exact hn) (present_of_ids hids hp) h1 (fun b hb => ha b (by simp [hb]))
      (client_content_step w hw0 s a L hn hi (ha a (by simp)) hL)

/-! ## any sequence of single-writer epochs -/

/-- an epoch: the writer (`0` = host) publishes `first`, then anything happens in which nobody else publishes -/
structure Epoch where
  writer : Nat
  first : Nat
  acts : List Act

def firstAct (e : Epoch) : Act := if e.writer = 0 then .publishH e.first else .publishC e.writer e.first

def Epoch.disciplined (e : Epoch) : Prop :=
  if e.writer = 0 then ∀ a ∈ e.acts, HostWrites a else ∀ a ∈ e.acts, ClientWrites e.writer a

def Epoch.run (s : State) (e : Epoch) : State := Asset.run true false (step true false s (firstAct e)) e.acts

/-- the last content the epoch's writer published -/
def Epoch.last (e : Epoch) : Option Nat := e.acts.foldl (pubOf e.writer) (some e.first)

def EpochsOk (s : State) : List Epoch → Prop
  | [] => True
  | e :: es =>
    e.disciplined ∧ (e.writer = 0 ∨ ∃ c ∈ s.clients, c.id = e.writer) ∧ Quiescent (e.run s) ∧ EpochsOk (e.run s) es

theorem epoch_converges (x : Option Nat) (s : State) (e : Epoch) (hn : (s.clients.map (·.id)).Nodup)
    (hs : Settled x s) (hd : e.disciplined) (hp : e.writer = 0 ∨ ∃ c ∈ s.clients, c.id = e.writer)
    (hq : Quiescent (e.run s)) : Settled e.last (e.run s) := by
  by_cases hw : e.writer = 0
  · simp only [Epoch.disciplined, hw, if_true] at hd
    have h0 : HInv (step true false s (.publishH e.first)) := hinv_start x s e.first hs
    have h1 := hinv_run _ e.acts h0 hd
    have hrun : Epoch.run s e = Asset.run true false (step true false s (.publishH e.first)) e.acts := by
      unfold Epoch.run firstAct; rw [if_pos hw]
    rw [hrun] at hq ⊢
    have h2 := hinv_settled _ h1 hq
    have h3 := host_content_run _ e.acts h0 hd
    have h4 : (step true false s (.publishH e.first)).host.content = some e.first := by simp [step, publish]
    rw [h3, h4] at h2
    unfold Epoch.last; rw [hw]; exact h2
  · simp only [Epoch.disciplined, hw, if_false] at hd
    have hp' : ∃ c ∈ s.clients, c.id = e.writer := by
      rcases hp with hp | hp
      · exact absurd hp hw
      · exact hp
    have hids := ids_step true false s (.publishC e.writer e.first)
    have h0 : CInv e.writer (step true false s (.publishC e.writer e.first)) := cinv_start e.writer x s e.first hs
    have hn1 : ((step true false s (.publishC e.writer e.first)).clients.map (·.id)).Nodup := by rw [hids]; exact hn
    have hp1 := present_of_ids hids hp'
    have h1 := cinv_run e.writer hw _ e.acts hn1 hp1 h0 hd
    have hrun : Epoch.run s e = Asset.run true false (step true false s (.publishC e.writer e.first)) e.acts := by
      unfold Epoch.run firstAct; rw [if_neg hw]
    rw [hrun] at hq ⊢
    have hids2 := ids_run true false (step true false s (.publishC e.writer e.first)) e.acts
    have hn2 : ((Asset.run true false (step true false s (.publishC e.writer e.first)) e.acts).clients.map (·.id)).Nodup := by
      rw [hids2]; exact hn1
    have hp2 := present_of_ids hids2 hp1
    have h2 := cinv_settled e.writer hw _ hn2 hp2 h1 hq
    have hL0 : ∀ c ∈ (step true false s (.publishC e.writer e.first)).clients, c.id = e.writer →
        c.p.content = some e.first := by
      simp only [step]
      apply forall_onClient
      · intro c _ hne hw'; exact absurd hw' hne
      · intro c _ _ _; simp [cPublish, publish]
    have h3 := client_content_run e.writer hw _ e.acts (some e.first) hn1 hp1 h0 hd hL0
    obtain ⟨cw, hcw, hcwid⟩ := hp2
    have h4 : contentOf e.writer (Asset.run true false (step true false s (.publishC e.writer e.first)) e.acts)
        = e.last := by
      simp only [contentOf, hw, if_false, findClient_of_mem hn2 hcw hcwid, Option.bind_some]
      exact h3 cw hcw hcwid
    rw [h4] at h2; exact h2

def runEpochs (s : State) (es : List Epoch) : State := es.foldl Epoch.run s

/-- the content every peer holds after the epochs: the last publication of the last epoch -/
def finalContent (x : Option Nat) : List Epoch → Option Nat
  | [] => x
  | e :: es => finalContent e.last es

theorem epochs_converge (x : Option Nat) (s : State) (es : List Epoch) (hn : (s.clients.map (·.id)).Nodup)
    (hs : Settled x s) (hok : EpochsOk s es) : Settled (finalContent x es) (runEpochs s es) := by
  induction es generalizing s x with
  | nil => exact hs
  | cons e es ih =>
    obtain ⟨hd, hp, hq, hrest⟩ := hok
    have h1 := epoch_converges x s e hn hs hd hp hq
    have hn' : ((e.run s).clients.map (·.id)).Nodup := by
      unfold Epoch.run; rw [ids_run, ids_step]; exact hn
    exact ih _ _ hn' h1 hrest

end Asset
end BevySync
