import BevySyncModel.Proofs.CompOrder
/-! Bounded work when a **client** is the writer: every application write costs at most one message to the host
plus one relay to each other client, whatever the schedule; readers and the host originate nothing. -/
namespace BevySync
namespace Comp

variable {V : Type} {ra : Bool} [DecidableEq V]

/-- the clients other than `w` -/
def readers (w : Nat) (s : State V) : Nat := ((s.clients.map (·.id)).filter (fun i => i ≠ w)).length

theorem readers_step (w : Nat) (s : State V) (a : Act V) :
    readers w (step ra false replace s a) = readers w s := by
  unfold readers; rw [ids_step]

theorem filter_ne_length (w : Nat) (cs : List (Client V)) :
    (cs.filter (fun c => c.id ≠ w)).length = ((cs.map (·.id)).filter (fun i => i ≠ w)).length := by
  rw [List.filter_map]
  simp only [List.length_map]
  rfl

/-- messages sent so far plus what the writer's pipeline still owes: a value in the host's closures or on the writer's
channel will be relayed to each reader, a value still on the writer costs one message more -/
def cCost (R : Nat) (s : State V) (cw : Client V) : Nat :=
  s.sent + R * (s.hdefer.length + cw.up.length) + (R + 1) * (cw.p.queue.length + bit cw.p.dirty)

def CBound (w : Nat) (R B : Nat) (s : State V) : Prop :=
  CInv w s ∧ readers w s = R ∧ ∀ cw ∈ s.clients, cw.id = w → cCost R s cw ≤ B

theorem forall_map_w {w : Nat} {g : Client V → Client V} (hid : ∀ c, (g c).id = c.id) {cs : List (Client V)}
    {P P' : Client V → Prop} (h : ∀ cw ∈ cs, cw.id = w → P cw) (hP : ∀ cw ∈ cs, cw.id = w → P cw → P' (g cw)) :
    ∀ cw' ∈ cs.map g, cw'.id = w → P' cw' := by
  intro cw' hcw' hw'
  obtain ⟨cw, hcw, rfl⟩ := List.mem_map.mp hcw'
  rw [hid] at hw'
  exact hP cw hcw hw' (h cw hcw hw')

theorem cbound_step (w : Nat) (R B : Nat) (s : State V) (a : Act V) (hi : CBound w R B s) (ha : ClientWrites w a) :
    CBound w R (B + (R + 1) * bit (isWrite a)) (step ra false replace s a) := by
  obtain ⟨hinv, hRdef, hb⟩ := hi
  refine ⟨cinv_step (ra := ra) w s a hinv ha, by rw [readers_step]; exact hRdef, ?_⟩
  obtain ⟨hn, hq, hf, he, hc⟩ := hinv
  cases a with
  | writeH v => exact absurd ha (by simp [ClientWrites])
  | detectH =>
    intro cw hcw hw
    have := hb cw hcw hw
    simp only [cCost] at this ⊢
    simpa [step, isWrite, bit] using this
  | reactH =>
    have e : s.clients.map (fun c => { c with down := c.down ++ s.host.queue }) = s.clients := by
      rw [hq]
      conv => rhs; rw [← List.map_id s.clients]
      apply List.map_congr_left
      intro c _
      simp
    intro cw hcw hw
    simp only [step, e] at hcw
    have := hb cw hcw hw
    simp only [cCost] at this ⊢
    simp only [step, hq, List.length_nil, Nat.zero_mul, Nat.add_zero, isWrite, bit, Bool.toNat_false, Nat.mul_zero]
    exact this
  | pollH i n =>
    simp only [step]
    cases hfc : findClient i s.clients with
    | none =>
      intro cw hcw hw
      have := hb cw hcw hw
      simp only [cCost] at this
      simp only [cCost]
      simpa [isWrite, bit] using this
    | some c0 =>
      dsimp only
      obtain ⟨hc0m, hc0id⟩ := findClient_spec hfc
      unfold onClient
      refine forall_map_w (P := fun cw => cCost R s cw ≤ B) ?_ hb ?_
      · intro c; split <;> rfl
      · intro cw hcw hw hcost
        simp only [cCost] at hcost
        simp only [cCost, isWrite, bit, Bool.toNat_false, Nat.mul_zero, Nat.add_zero, List.length_append, List.length_map]
        by_cases hiw : cw.id = i
        · rw [if_pos hiw]
          have hcweq : cw = c0 := nodup_unique hn hcw hc0m (by rw [hiw, hc0id])
          have hlen : (List.take n c0.up).length + (List.drop n cw.up).length = cw.up.length := by
            rw [hcweq, ← List.length_append, List.take_append_drop]
          simp only
          have : s.hdefer.length + (List.take n c0.up).length + (List.drop n cw.up).length = s.hdefer.length + cw.up.length := by omega
          rw [this]; exact hcost
        · rw [if_neg hiw]
          have hc0w : c0.id ≠ w := by rw [hc0id, ← hw]; exact fun h => hiw h.symm
          have hup : c0.up = [] := ((hc c0 hc0m).2 hc0w).1
          simp only [hup, List.take_nil, List.length_nil, Nat.add_zero]
          exact hcost
  | flushH =>
    simp only [step]
    cases hdf : s.hdefer with
    | nil =>
      intro cw hcw hw
      have := hb cw hcw hw
      simp only [cCost, hdf] at this
      simp only [cCost, hdf]
      simpa [isWrite, bit] using this
    | cons m rest =>
      obtain ⟨i, v⟩ := m
      have hiw : i = w := he (i, v) (by simp [hdf])
      simp only
      have hfl : (s.clients.filter (fun c => c.id ≠ i)).length = R := by
        rw [filter_ne_length, hiw]; exact hRdef
      split
      · refine forall_map_w (P := fun cw => cCost R s cw ≤ B) ?_ hb ?_
        · intro c; split <;> rfl
        · intro cw hcw hw hcost
          rw [if_pos (by rw [hw, hiw])]
          simp only [cCost, hdf, List.length_cons] at hcost
          simp only [cCost, hfl, isWrite, bit, Bool.toNat_false, Nat.mul_zero, Nat.add_zero]
          simp only [bit, Nat.mul_add, Nat.add_mul, Nat.mul_one, Nat.one_mul] at hcost ⊢
          omega
      · intro cw hcw hw
        have hcost := hb cw hcw hw
        simp only [cCost, hdf, List.length_cons] at hcost
        simp only [cCost, isWrite, bit, Bool.toNat_false, Nat.mul_zero, Nat.add_zero]
        simp only [bit, Nat.mul_add, Nat.add_mul, Nat.mul_one, Nat.one_mul] at hcost ⊢
        omega
  | writeC i v =>
    have hiw : i = w := ha
    simp only [step]
    unfold onClient
    refine forall_map_w (P := fun cw => cCost R s cw ≤ B) ?_ hb ?_
    · intro c; split <;> rfl
    · intro cw hcw hw hcost
      rw [if_pos (by rw [hw, hiw])]
      simp only [cCost] at hcost
      simp only [cCost, write, isWrite, bit, Bool.toNat_true, Nat.mul_one]
      cases hd : cw.p.dirty with
      | true =>
        simp only [hd, bit, Bool.toNat_true, Nat.mul_add, Nat.add_mul, Nat.mul_one, Nat.one_mul] at hcost ⊢
        omega
      | false =>
        simp only [hd, bit, Bool.toNat_false, Nat.add_zero, Nat.mul_add, Nat.add_mul, Nat.mul_one, Nat.one_mul] at hcost ⊢
        omega
  | detectC i =>
    simp only [step]
    unfold onClient
    refine forall_map_w (P := fun cw => cCost R s cw ≤ B) ?_ hb ?_
    · intro c; split <;> rfl
    · intro cw hcw hw hcost
      simp only [cCost] at hcost
      by_cases hci : cw.id = i
      · rw [if_pos hci]
        obtain ⟨w1, _, _, w4, _⟩ := (hc cw hcw).1 hw
        simp only [cCost, isWrite, bit, Bool.toNat_false, Nat.mul_zero, Nat.add_zero]
        cases hd : cw.p.dirty with
        | false =>
          have e : detect cw.p = cw.p := by simp [detect, hd]
          rw [e]; simpa [bit, hd] using hcost
        | true =>
          cases hv : cw.p.val with
          | none => exact absurd hv (w4 hd)
          | some v0 =>
            have e : detect cw.p = { cw.p with dirty := false, queue := cw.p.queue ++ [v0] } := by
              simp [detect, hd, w1, hv]
            rw [e]
            simp only [hd, bit, Bool.toNat_true] at hcost
            simp only [List.length_append, List.length_cons, List.length_nil, Bool.toNat_false, Nat.add_zero, Nat.zero_add]
            exact hcost
      · rw [if_neg hci]
        simp only [cCost]
        simpa [isWrite, bit] using hcost
  | reactC i =>
    simp only [step]
    unfold onClient
    by_cases hiw : i = w
    · refine forall_map_w (P := fun cw => cCost R s cw ≤ B) ?_ hb ?_
      · intro c; split <;> rfl
      · intro cw hcw hw hcost
        rw [if_pos (by rw [hw, hiw])]
        have hfind : findClient i s.clients = some cw := by
          cases hfc : findClient i s.clients with
          | some c0 =>
            obtain ⟨hc0m, hc0id⟩ := findClient_spec hfc
            rw [nodup_unique hn hc0m hcw (by rw [hc0id, hw, hiw])]
          | none =>
            unfold findClient at hfc
            have := List.find?_eq_none.mp hfc cw hcw
            simp [hw, hiw] at this
        simp only [cCost] at hcost
        simp only [cCost, hfind, Option.map_some, Option.getD_some, isWrite, bit, Bool.toNat_false, Nat.mul_zero, Nat.add_zero,
          List.length_append, List.length_nil]
        simp only [bit, Nat.mul_add, Nat.add_mul, Nat.mul_one, Nat.one_mul, Nat.zero_add, Nat.mul_zero] at hcost ⊢
        omega
    · refine forall_map_w (P := fun cw => cCost R s cw ≤ B) ?_ hb ?_
      · intro c; split <;> rfl
      · intro cw hcw hw hcost
        rw [if_neg (by rw [hw]; exact fun h => hiw h.symm)]
        simp only [cCost] at hcost
        have hsent : ((findClient i s.clients).map (fun c => c.p.queue.length)).getD 0 = 0 := by
          cases hfc : findClient i s.clients with
          | none => rfl
          | some c0 =>
            obtain ⟨hc0m, hc0id⟩ := findClient_spec hfc
            have : c0.p.queue = [] := ((hc c0 hc0m).2 (by rw [hc0id]; exact hiw)).2.1
            simp [this]
        simp only [cCost, hsent, isWrite, bit, Bool.toNat_false, Nat.mul_zero, Nat.add_zero]
        exact hcost
  | pollC i n =>
    simp only [step]
    unfold onClient
    refine forall_map_w (P := fun cw => cCost R s cw ≤ B) ?_ hb ?_
    · intro c; split <;> rfl
    · intro cw hcw hw hcost
      simp only [cCost] at hcost
      have e : cCost R { s with clients := s.clients.map (fun c => if c.id = i then { c with defer := c.defer ++ c.down.take n, down := c.down.drop n } else c) }
          (if cw.id = i then { cw with defer := cw.defer ++ cw.down.take n, down := cw.down.drop n } else cw) =
          s.sent + R * (s.hdefer.length + cw.up.length) + (R + 1) * (cw.p.queue.length + bit cw.p.dirty) := by
        simp only [cCost]
        split <;> rfl
      rw [e]
      simpa [isWrite, bit] using hcost
  | flushC i =>
    simp only [step]
    unfold onClient
    refine forall_map_w (P := fun cw => cCost R s cw ≤ B) ?_ hb ?_
    · intro c; split
      · dsimp only; split <;> rfl
      · rfl
    · intro cw hcw hw hcost
      obtain ⟨_, w2, _, _, _⟩ := (hc cw hcw).1 hw
      simp only [cCost] at hcost
      by_cases hci : cw.id = i
      · rw [if_pos hci]
        dsimp only
        rw [w2]
        simp only [cCost]
        simpa [isWrite, bit] using hcost
      · rw [if_neg hci]
        simp only [cCost]
        simpa [isWrite, bit] using hcost

theorem cbound_run (w : Nat) (R B : Nat) (s : State V) (as : List (Act V)) (hi : CBound w R B s)
    (ha : ∀ a ∈ as, ClientWrites w a) : CBound w R (B + (R + 1) * writes as) (run ra false replace s as) := by
  induction as generalizing s B with
  | nil => simpa [run, writes] using hi
  | cons a as ih =>
    have ha1 := ha a (by simp)
    have h1 := cbound_step (ra := ra) w R B s a hi ha1
    have h2 := ih _ (step ra false replace s a) h1 (fun b hb => ha b (by simp [hb]))
    have hw : writes (a :: as) = bit (isWrite a) + writes as := by
      simp only [writes, List.filter_cons, bit]
      cases isWrite a <;> simp <;> omega
    simp only [run, List.foldl_cons] at h2 ⊢
    rw [hw, Nat.mul_add, ← Nat.add_assoc]
    exact h2

theorem filter_ne_succ (w : Nat) (l : List Nat) (hn : l.Nodup) (hm : w ∈ l) :
    (l.filter (fun i => i ≠ w)).length + 1 = l.length := by
  induction l with
  | nil => cases hm
  | cons a l ih =>
    simp only [List.nodup_cons] at hn
    by_cases h : a = w
    · subst h
      have hall : l.filter (fun i => decide (i ≠ a)) = l := by
        apply List.filter_eq_self.mpr
        intro x hx
        have : x ≠ a := fun hxa => hn.1 (hxa ▸ hx)
        exact decide_eq_true this
      rw [List.filter_cons, if_neg (by simp), hall]
      rfl
    · have hm' : w ∈ l := by
        rcases List.mem_cons.mp hm with h' | h'
        · exact absurd h'.symm h
        · exact h'
      have := ih hn.2 hm'
      rw [List.filter_cons, if_pos (decide_eq_true h)]
      simp only [List.length_cons]
      omega

/-- with the writer among them, the readers are all clients but one -/
theorem readers_succ (w : Nat) (s : State V) (hn : (s.clients.map (·.id)).Nodup) (hw : ∃ c ∈ s.clients, c.id = w) :
    readers w s + 1 = s.clients.length := by
  unfold readers
  have hmem : w ∈ s.clients.map (·.id) := by
    obtain ⟨c, hc, hcw⟩ := hw
    exact List.mem_map.mpr ⟨c, hc, hcw⟩
  rw [filter_ne_succ w _ hn hmem, List.length_map]

theorem ids_run_comp (s : State V) (as : List (Act V)) :
    (run ra false replace s as).clients.map (·.id) = s.clients.map (·.id) := by
  induction as generalizing s with
  | nil => rfl
  | cons a as ih =>
    simp only [run, List.foldl_cons]
    exact (ih (step ra false replace s a)).trans (ids_step false replace s a)

/-- **bounded work, a client writes**: in an epoch starting from a drained state the number of messages ever sent grows
by at most `N` per application write (one to the host, one relay to each of the `N − 1` other clients), whatever the
schedule: neither the host nor any reader originates a message of its own -/
theorem client_epoch_bounded (w : Nat) (x : Option V) (s : State V) (as : List (Act V))
    (hn : (s.clients.map (·.id)).Nodup) (hw : ∃ c ∈ s.clients, c.id = w) (hc : Clean x s)
    (ha : ∀ a ∈ as, ClientWrites w a) :
    (run ra false replace s as).sent ≤ s.sent + s.clients.length * writes as := by
  have h0 : CBound w (readers w s) s.sent s := by
    refine ⟨clean_cinv w x s hn hc, rfl, fun cw hcw _ => ?_⟩
    obtain ⟨h1, h2, h3, h4, h5, h6⟩ := hc
    obtain ⟨c1, c2, c3, c4, c5, c6, c7⟩ := h6 cw hcw
    simp [cCost, h5, c6, c4, c2, bit]
  obtain ⟨hinv, _, hb⟩ := cbound_run (ra := ra) w (readers w s) s.sent s as h0 ha
  obtain ⟨cw, hcw, hcwid⟩ : ∃ cw ∈ (run ra false replace s as).clients, cw.id = w := by
    obtain ⟨c, hcm, hcid⟩ := hw
    have h1 : w ∈ s.clients.map (·.id) := List.mem_map.mpr ⟨c, hcm, hcid⟩
    have hids := ids_run_comp (ra := ra) s as
    rw [← hids] at h1
    obtain ⟨c', hc', hw'⟩ := List.mem_map.mp h1
    exact ⟨c', hc', hw'⟩
  have := hb cw hcw hcwid
  rw [readers_succ w s hn hw] at this
  simp only [cCost] at this
  omega

end Comp
end BevySync
