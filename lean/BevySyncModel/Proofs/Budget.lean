import BevySyncModel.Slice.Budget
namespace BevySync
namespace Budget

theorem total_cons (x : Nat) (xs : List Nat) : total (x :: xs) = x + total xs := by
  unfold total
  have h : ∀ (l : List Nat) (a : Nat), l.foldl (· + ·) a = a + l.foldl (· + ·) 0 := by
    intro l
    induction l with
    | nil => intro a; simp
    | cons y ys ih => intro a; simp only [List.foldl_cons]; rw [ih (a + y), ih (0 + y)]; omega
  simp only [List.foldl_cons]
  rw [h xs (0 + x)]; omega

theorem sendAll_closed (budget : Nat) (sizes : List Nat) (c : Chan) (h : c.closed = true) :
    sendAll budget c sizes = c := by
  induction sizes with
  | nil => rfl
  | cons x xs ih =>
    have : send budget c x = c := by simp [send, h]
    simp only [sendAll, List.foldl_cons] at *
    rw [this]; exact ih

/-- everything fits: every message is accepted, in order, and the channel stays open -/
theorem fits (budget : Nat) (sizes : List Nat) : ∀ c : Chan, c.closed = false → c.used + total sizes ≤ budget →
    (sendAll budget c sizes).closed = false ∧ (sendAll budget c sizes).queued = c.queued ++ sizes ∧
    (sendAll budget c sizes).used = c.used + total sizes := by
  induction sizes with
  | nil => intro c hc _; simp [sendAll, total, hc]
  | cons x xs ih =>
    intro c hc hb
    rw [total_cons] at hb
    have hx : ¬ (c.used + x > budget) := by omega
    have hs : send budget c x = { c with used := c.used + x, queued := c.queued ++ [x] } := by simp [send, hc, hx]
    have := ih (send budget c x) (by rw [hs]; exact hc) (by rw [hs]; simp; omega)
    simp only [sendAll, List.foldl_cons] at *
    rw [hs] at this ⊢
    refine ⟨this.1, ?_, ?_⟩
    · rw [this.2.1]; simp
    · rw [this.2.2, total_cons]; simp; omega

/-- it does not fit: some message is refused, the client is disconnected and receives nothing of the call -/
theorem overflows (budget : Nat) (sizes : List Nat) : ∀ c : Chan, c.closed = false → c.used ≤ budget → c.used + total sizes > budget →
    (sendAll budget c sizes).closed = true ∧ delivered (sendAll budget c sizes) = [] := by
  induction sizes with
  | nil => intro c _ hu hb; simp [total] at hb; omega
  | cons x xs ih =>
    intro c hc hu hb
    rw [total_cons] at hb
    by_cases hx : c.used + x > budget
    · have hs : send budget c x = { c with closed := true, queued := [] } := by simp [send, hc, hx]
      have hcl := sendAll_closed budget xs (send budget c x) (by rw [hs])
      simp only [sendAll, List.foldl_cons] at *
      rw [hcl, hs]; simp [delivered]
    · have hs : send budget c x = { c with used := c.used + x, queued := c.queued ++ [x] } := by simp [send, hc, hx]
      have := ih (send budget c x) (by rw [hs]; exact hc) (by rw [hs]; simp; omega) (by rw [hs]; simp; omega)
      simpa only [sendAll, List.foldl_cons] using this

/-- a join is served exactly when the snapshot fits into what the channel has left -/
theorem served_iff_fits (budget : Nat) (sizes : List Nat) (c : Chan) (hc : c.closed = false) (hu : c.used ≤ budget) :
    delivered (sendAll budget c sizes) = c.queued ++ sizes ↔ (c.used + total sizes ≤ budget ∨ c.queued ++ sizes = []) := by
  by_cases hb : c.used + total sizes ≤ budget
  · have := fits budget sizes c hc hb
    simp [delivered, this.1, this.2.1, hb]
  · have := overflows budget sizes c hc hu (by omega)
    rw [this.2]
    constructor
    · intro h; right; exact h.symm
    · intro h; rcases h with h | h
      · exact absurd h hb
      · exact h.symm

end Budget
end BevySync
