import BevySyncModel.Proofs.CompWork
/-! Ordered observation when a **client** is the writer: what the host, and every other client behind the host's
relay, has shown, followed by everything still travelling towards it (its own closures and channel, the host's
closures, the writer's channel, queue and undetected value), is a subsequence of the values written. -/
namespace BevySync
namespace Comp

variable {V : Type} {ra : Bool} [DecidableEq V]

/-- what the writer still owes the host, in order -/
def tailOf (cw : Client V) : List V := cw.up ++ (cw.p.queue ++ dvl cw.p)

def hdVals (s : State V) : List V := s.hdefer.map (·.2)

def chainH (s : State V) (t : List V) : List V := s.host.shown ++ (hdVals s ++ t)

def chainC (s : State V) (t : List V) (c : Client V) : List V :=
  c.p.shown ++ (c.defer ++ (c.down ++ (hdVals s ++ t)))

def COrd (w : Nat) (s : State V) : Prop :=
  CInv w s ∧ (∃ cw ∈ s.clients, cw.id = w) ∧
  ∀ cw ∈ s.clients, cw.id = w →
    List.Sublist (chainH s (tailOf cw)) s.written ∧
    ∀ c ∈ s.clients, c.id ≠ w → List.Sublist (chainC s (tailOf cw) c) s.written

theorem pair_map {w : Nat} {g : Client V → Client V} (hid : ∀ c, (g c).id = c.id) {cs : List (Client V)}
    {P P' : Client V → Prop} {Q Q' : Client V → Client V → Prop}
    (h : ∀ cw ∈ cs, cw.id = w → P cw ∧ ∀ c ∈ cs, c.id ≠ w → Q cw c)
    (hP : ∀ cw ∈ cs, cw.id = w → P cw → P' (g cw))
    (hQ : ∀ cw ∈ cs, ∀ c ∈ cs, cw.id = w → c.id ≠ w → P cw → Q cw c → Q' (g cw) (g c)) :
    ∀ cw' ∈ cs.map g, cw'.id = w → P' cw' ∧ ∀ c' ∈ cs.map g, c'.id ≠ w → Q' cw' c' := by
  intro cw' hcw' hw'
  obtain ⟨cw, hcw, rfl⟩ := List.mem_map.mp hcw'
  rw [hid] at hw'
  obtain ⟨hp, hq⟩ := h cw hcw hw'
  refine ⟨hP cw hcw hw' hp, fun c' hc' hne' => ?_⟩
  obtain ⟨c, hc, rfl⟩ := List.mem_map.mp hc'
  rw [hid] at hne'
  exact hQ cw hcw c hc hw' hne' hp (hq c hc hne')

theorem ite_id (i : Nat) (f : Client V → Client V) (hf : ∀ c, (f c).id = c.id) (c : Client V) :
    (if c.id = i then f c else c).id = c.id := by
  split
  · exact hf c
  · rfl

theorem present_step (w : Nat) (s : State V) (a : Act V) (hp : ∃ cw ∈ s.clients, cw.id = w) :
    ∃ cw ∈ (step ra false replace s a).clients, cw.id = w := by
  obtain ⟨c, hc, hw⟩ := hp
  have h1 : w ∈ s.clients.map (·.id) := List.mem_map.mpr ⟨c, hc, hw⟩
  rw [← ids_step (ra := ra) false replace s a] at h1
  obtain ⟨c', hc', hw'⟩ := List.mem_map.mp h1
  exact ⟨c', hc', hw'⟩

theorem sublist_snoc_of_prefix {α : Type} (a d w : List α) (v : α) (h : List.Sublist (a ++ d) w) :
    List.Sublist (a ++ [v]) (w ++ [v]) :=
  List.Sublist.append (List.Sublist.trans (List.sublist_append_left a d) h) (List.Sublist.refl [v])

theorem cord_step (w : Nat) (s : State V) (a : Act V) (hi : COrd w s) (ha : ClientWrites w a) :
    COrd w (step ra false replace s a) := by
  obtain ⟨hinv, hp, ho⟩ := hi
  refine ⟨cinv_step (ra := ra) w s a hinv ha, present_step w s a hp, ?_⟩
  obtain ⟨hn, hq, hf, he, hc⟩ := hinv
  cases a with
  | writeH v => exact absurd ha (by simp [ClientWrites])
  | detectH =>
    intro cw hcw hw
    obtain ⟨o1, o2⟩ := ho cw hcw hw
    exact ⟨by simpa [chainH, hdVals, step, detect_shown] using o1,
      fun c hcm hne => by simpa [chainC, hdVals, step] using o2 c hcm hne⟩
  | reactH =>
    have e : s.clients.map (fun c => { c with down := c.down ++ s.host.queue }) = s.clients := by
      rw [hq]
      conv => rhs; rw [← List.map_id s.clients]
      apply List.map_congr_left
      intro c _
      simp
    intro cw hcw hw
    simp only [step, e] at hcw ⊢
    obtain ⟨o1, o2⟩ := ho cw hcw hw
    exact ⟨by simpa [chainH, hdVals] using o1, fun c hcm hne => by simpa [chainC, hdVals] using o2 c hcm hne⟩
  | pollH i n =>
    simp only [step]
    cases hfc : findClient i s.clients with
    | none => exact ho
    | some c0 =>
      dsimp only
      obtain ⟨hc0m, hc0id⟩ := findClient_spec hfc
      unfold onClient
      by_cases hiw : i = w
      · -- the writer's channel: a prefix moves into the host's closures
        refine pair_map (P := fun cw => List.Sublist (chainH s (tailOf cw)) s.written)
          (Q := fun cw c => List.Sublist (chainC s (tailOf cw) c) s.written) ?_ ho ?_ ?_
        · intro c; split <;> rfl
        · intro cw hcw hw o1
          have hcweq : cw = c0 := nodup_unique hn hcw hc0m (by rw [hw, hc0id, hiw])
          rw [if_pos (by rw [hw, hiw])]
          have : chainH { s with hdefer := s.hdefer ++ (c0.up.take n).map (fun v => (i, v)),
                                 clients := s.clients.map (fun c => if c.id = i then { c with up := c.up.drop n } else c) }
              (tailOf { cw with up := cw.up.drop n }) = chainH s (tailOf cw) := by
            simp only [chainH, hdVals, tailOf, List.map_append, List.map_map, hcweq]
            have : (List.map ((fun x => x.2) ∘ fun v => (i, v)) (List.take n c0.up)) = List.take n c0.up := by
              have hcomp : ((fun x : Nat × V => x.2) ∘ fun v => (i, v)) = id := by funext v; rfl
              rw [hcomp, List.map_id]
            rw [this]
            simp only [List.append_assoc]
            rw [← List.append_assoc (List.take n c0.up), List.take_append_drop]
          rw [this]; exact o1
        · intro cw hcw c hcm hw hne _ o2
          have hcweq : cw = c0 := nodup_unique hn hcw hc0m (by rw [hw, hc0id, hiw])
          rw [if_pos (by rw [hw, hiw]), if_neg (by rw [hiw]; exact hne)]
          have : chainC { s with hdefer := s.hdefer ++ (c0.up.take n).map (fun v => (i, v)),
                                 clients := s.clients.map (fun c => if c.id = i then { c with up := c.up.drop n } else c) }
              (tailOf { cw with up := cw.up.drop n }) c = chainC s (tailOf cw) c := by
            simp only [chainC, hdVals, tailOf, List.map_append, List.map_map, hcweq]
            have : (List.map ((fun x => x.2) ∘ fun v => (i, v)) (List.take n c0.up)) = List.take n c0.up := by
              have hcomp : ((fun x : Nat × V => x.2) ∘ fun v => (i, v)) = id := by funext v; rfl
              rw [hcomp, List.map_id]
            rw [this]
            simp only [List.append_assoc]
            rw [← List.append_assoc (List.take n c0.up), List.take_append_drop]
          rw [this]; exact o2
      · -- a reader's channel to the host is empty
        have hc0w : c0.id ≠ w := by rw [hc0id]; exact hiw
        have hup : c0.up = [] := ((hc c0 hc0m).2 hc0w).1
        refine pair_map (P := fun cw => List.Sublist (chainH s (tailOf cw)) s.written)
          (Q := fun cw c => List.Sublist (chainC s (tailOf cw) c) s.written) ?_ ho ?_ ?_
        · intro c; split <;> rfl
        · intro cw hcw hw o1
          rw [if_neg (by rw [hw]; exact fun h => hiw h.symm)]
          simpa [chainH, hdVals, hup] using o1
        · intro cw hcw c hcm hw hne _ o2
          rw [if_neg (by rw [hw]; exact fun h => hiw h.symm)]
          have : chainC { s with hdefer := s.hdefer ++ (c0.up.take n).map (fun v => (i, v)),
                                 clients := s.clients.map (fun c => if c.id = i then { c with up := c.up.drop n } else c) }
              (tailOf cw) (if c.id = i then { c with up := c.up.drop n } else c) = chainC s (tailOf cw) c := by
            split <;> simp [chainC, hdVals, hup]
          rw [this]; exact o2
  | flushH =>
    simp only [step]
    cases hdf : s.hdefer with
    | nil => simp only; exact ho
    | cons m rest =>
      obtain ⟨i, v⟩ := m
      have hiw : i = w := he (i, v) (by simp [hdf])
      simp only
      have hsh := apply_shown s.host v
      cases hch : (apply false replace s.host v).2 with
      | true =>
        simp only [Bool.true_or, if_true]
        refine pair_map (P := fun cw => List.Sublist (chainH s (tailOf cw)) s.written)
          (Q := fun cw c => List.Sublist (chainC s (tailOf cw) c) s.written) ?_ ho ?_ ?_
        · intro c; split <;> rfl
        · intro cw hcw hw o1
          rw [if_pos (by rw [hw, hiw])]
          rw [hch] at hsh
          simp only [if_true] at hsh
          simpa [chainH, hdVals, hdf, hsh, List.append_assoc] using o1
        · intro cw hcw c hcm hw hne _ o2
          rw [if_pos (by rw [hw, hiw]), if_neg (by rw [hiw]; exact hne)]
          simpa [chainC, hdVals, hdf, List.append_assoc] using o2
      | false =>
        rw [hch] at hsh
        simp only [Bool.false_eq_true, if_false] at hsh
        cases ra with
        | true =>
          simp only [Bool.or_true, if_true]
          refine pair_map (P := fun cw => List.Sublist (chainH s (tailOf cw)) s.written)
            (Q := fun cw c => List.Sublist (chainC s (tailOf cw) c) s.written) ?_ ho ?_ ?_
          · intro c; split <;> rfl
          · intro cw hcw hw o1
            rw [if_pos (by rw [hw, hiw])]
            simp only [chainH, hdVals, hdf, List.map_cons] at o1
            simp only [chainH, hdVals, hsh]
            exact sublist_drop_mid _ _ v _ o1
          · intro cw hcw c hcm hw hne _ o2
            rw [if_pos (by rw [hw, hiw]), if_neg (by rw [hiw]; exact hne)]
            simpa [chainC, hdVals, hdf, List.append_assoc] using o2
        | false =>
          simp only [Bool.or_false, Bool.false_eq_true, if_false]
          intro cw hcw hw
          obtain ⟨o1, o2⟩ := ho cw hcw hw
          refine ⟨?_, fun c hcm hne => ?_⟩
          · simp only [chainH, hdVals, hdf, List.map_cons] at o1
            simp only [chainH, hdVals, hsh]
            exact sublist_drop_mid _ _ v _ o1
          · have h2 := o2 c hcm hne
            simp only [chainC, hdVals, hdf, List.map_cons] at h2
            simp only [chainC, hdVals]
            have h3 : List.Sublist ((c.p.shown ++ (c.defer ++ c.down)) ++ (v :: (List.map (fun x => x.2) rest ++ tailOf cw))) s.written := by
              simpa [List.append_assoc] using h2
            have h4 := sublist_drop_mid _ _ v _ h3
            simpa [List.append_assoc] using h4
  | writeC i v =>
    have hiw : i = w := ha
    simp only [step]
    unfold onClient
    refine pair_map (P := fun cw => List.Sublist (chainH s (tailOf cw)) s.written)
      (Q := fun cw c => List.Sublist (chainC s (tailOf cw) c) s.written) ?_ ho ?_ ?_
    · intro c; split <;> rfl
    · intro cw hcw hw o1
      rw [if_pos (by rw [hw, hiw])]
      have e1 : chainH s (tailOf cw) = (s.host.shown ++ (hdVals s ++ (cw.up ++ cw.p.queue))) ++ dvl cw.p := by
        simp [chainH, tailOf, List.append_assoc]
      have e2 : chainH { s with clients := s.clients.map (fun c => if c.id = i then { c with p := write c.p v } else c),
                                written := s.written ++ [v] } (tailOf { cw with p := write cw.p v })
          = (s.host.shown ++ (hdVals s ++ (cw.up ++ cw.p.queue))) ++ [v] := by
        simp [chainH, hdVals, tailOf, write, dvl, List.append_assoc]
      rw [e2]
      rw [e1] at o1
      exact sublist_snoc_of_prefix _ _ _ v o1
    · intro cw hcw c hcm hw hne _ o2
      rw [if_pos (by rw [hw, hiw]), if_neg (by rw [hiw]; exact hne)]
      have e1 : chainC s (tailOf cw) c = (c.p.shown ++ (c.defer ++ (c.down ++ (hdVals s ++ (cw.up ++ cw.p.queue))))) ++ dvl cw.p := by
        simp [chainC, tailOf, List.append_assoc]
      have e2 : chainC { s with clients := s.clients.map (fun c => if c.id = i then { c with p := write c.p v } else c),
                                written := s.written ++ [v] } (tailOf { cw with p := write cw.p v }) c
          = (c.p.shown ++ (c.defer ++ (c.down ++ (hdVals s ++ (cw.up ++ cw.p.queue))))) ++ [v] := by
        simp [chainC, hdVals, tailOf, write, dvl, List.append_assoc]
      rw [e2]
      rw [e1] at o2
      exact sublist_snoc_of_prefix _ _ _ v o2
  | detectC i =>
    simp only [step]
    unfold onClient
    have htail : ∀ cw ∈ s.clients, cw.id = w → tailOf { cw with p := detect cw.p } = tailOf cw := by
      intro cw hcw hw
      obtain ⟨w1, _, _, w4, _⟩ := (hc cw hcw).1 hw
      cases hd : cw.p.dirty with
      | false => simp [tailOf, detect, hd]
      | true =>
        cases hv : cw.p.val with
        | none => exact absurd hv (w4 hd)
        | some v => simp [tailOf, detect, hd, w1, hv, dvl, List.append_assoc]
    refine pair_map (P := fun cw => List.Sublist (chainH s (tailOf cw)) s.written)
      (Q := fun cw c => List.Sublist (chainC s (tailOf cw) c) s.written) ?_ ho ?_ ?_
    · intro c; split <;> rfl
    · intro cw hcw hw o1
      by_cases hci : cw.id = i
      · rw [if_pos hci]
        simpa [chainH, hdVals, htail cw hcw hw] using o1
      · rw [if_neg hci]
        simpa [chainH, hdVals] using o1
    · intro cw hcw c hcm hw hne _ o2
      have ht : tailOf (if cw.id = i then { cw with p := detect cw.p } else cw) = tailOf cw := by
        split
        · exact htail cw hcw hw
        · rfl
      rw [ht]
      by_cases hci : c.id = i
      · rw [if_pos hci]
        simpa [chainC, hdVals, detect_shown] using o2
      · rw [if_neg hci]
        simpa [chainC, hdVals] using o2
  | reactC i =>
    simp only [step]
    unfold onClient
    have htail : ∀ cw : Client V, tailOf { cw with p := { cw.p with queue := [] }, up := cw.up ++ cw.p.queue } = tailOf cw := by
      intro cw
      simp [tailOf, dvl, List.append_assoc]
    refine pair_map (P := fun cw => List.Sublist (chainH s (tailOf cw)) s.written)
      (Q := fun cw c => List.Sublist (chainC s (tailOf cw) c) s.written) ?_ ho ?_ ?_
    · intro c; split <;> rfl
    · intro cw hcw hw o1
      by_cases hci : cw.id = i
      · rw [if_pos hci]
        simpa [chainH, hdVals, htail cw] using o1
      · rw [if_neg hci]
        simpa [chainH, hdVals] using o1
    · intro cw hcw c hcm hw hne _ o2
      have ht : tailOf (if cw.id = i then { cw with p := { cw.p with queue := [] }, up := cw.up ++ cw.p.queue } else cw) = tailOf cw := by
        split
        · exact htail cw
        · rfl
      rw [ht]
      by_cases hci : c.id = i
      · rw [if_pos hci]
        simpa [chainC, hdVals] using o2
      · rw [if_neg hci]
        simpa [chainC, hdVals] using o2
  | pollC i n =>
    simp only [step]
    unfold onClient
    refine pair_map (P := fun cw => List.Sublist (chainH s (tailOf cw)) s.written)
      (Q := fun cw c => List.Sublist (chainC s (tailOf cw) c) s.written) ?_ ho ?_ ?_
    · intro c; split <;> rfl
    · intro cw hcw hw o1
      have ht : tailOf (if cw.id = i then { cw with defer := cw.defer ++ cw.down.take n, down := cw.down.drop n } else cw) = tailOf cw := by
        split <;> rfl
      rw [ht]
      simpa [chainH, hdVals] using o1
    · intro cw hcw c hcm hw hne _ o2
      have ht : tailOf (if cw.id = i then { cw with defer := cw.defer ++ cw.down.take n, down := cw.down.drop n } else cw) = tailOf cw := by
        split <;> rfl
      rw [ht]
      by_cases hci : c.id = i
      · rw [if_pos hci]
        have e : List.take n c.down ++ (List.drop n c.down ++ (hdVals s ++ tailOf cw)) = c.down ++ (hdVals s ++ tailOf cw) := by
          rw [← List.append_assoc, List.take_append_drop]
        simp only [chainC, hdVals, List.append_assoc] at o2 ⊢
        simp only [hdVals] at e
        rw [e]; exact o2
      · rw [if_neg hci]
        simpa [chainC, hdVals] using o2
  | flushC i =>
    simp only [step]
    unfold onClient
    refine pair_map (P := fun cw => List.Sublist (chainH s (tailOf cw)) s.written)
      (Q := fun cw c => List.Sublist (chainC s (tailOf cw) c) s.written)
      ?_ ho ?_ ?_
    · intro c; split
      · dsimp only; split <;> rfl
      · rfl
    · intro cw hcw hw o1
      obtain ⟨_, w2, _, _, _⟩ := (hc cw hcw).1 hw
      by_cases hci : cw.id = i
      · rw [if_pos hci]
        dsimp only
        rw [w2]
        simpa [chainH, hdVals] using o1
      · rw [if_neg hci]
        simpa [chainH, hdVals] using o1
    · intro cw hcw c hcm hw hne _ o2
      obtain ⟨_, w2, _, _, _⟩ := (hc cw hcw).1 hw
      by_cases hci : c.id = i
      · rw [if_pos hci]
        by_cases hcwi : cw.id = i
        · rw [if_pos hcwi]
          dsimp only
          rw [w2]
          · simp only []
            cases hdef : c.defer with
            | nil => simp only []; simpa [chainC, hdVals, hdef] using o2
            | cons v rest =>
              simp only []
              simp only [chainC, hdef, List.cons_append] at o2
              simp only [chainC, apply_shown]
              cases (apply false replace c.p v).2 with
              | true => simpa [hdVals, List.append_assoc] using o2
              | false =>
                simp only [Bool.false_eq_true, if_false]
                exact sublist_drop_mid _ _ v _ o2
        · rw [if_neg hcwi]
          dsimp only
          cases hdef : c.defer with
          | nil => simp only []; simpa [chainC, hdVals, hdef] using o2
          | cons v rest =>
            simp only []
            simp only [chainC, hdef, List.cons_append] at o2
            simp only [chainC, apply_shown]
            cases (apply false replace c.p v).2 with
            | true => simpa [hdVals, List.append_assoc] using o2
            | false =>
              simp only [Bool.false_eq_true, if_false]
              exact sublist_drop_mid _ _ v _ o2
      · rw [if_neg hci]
        by_cases hcwi : cw.id = i
        · rw [if_pos hcwi]
          dsimp only
          rw [w2]
          simpa [chainC, hdVals] using o2
        · rw [if_neg hcwi]
          simpa [chainC, hdVals] using o2

theorem cord_run (w : Nat) (s : State V) (as : List (Act V)) (hi : COrd w s) (ha : ∀ a ∈ as, ClientWrites w a) :
    COrd w (run ra false replace s as) := by
  induction as generalizing s with
  | nil => exact hi
  | cons a as ih =>
    have := ih (step ra false replace s a) (cord_step (ra := ra) w s a hi (ha a (by simp))) (fun b hb => ha b (by simp [hb]))
    simpa [run] using this

/-- **ordered observation, a client writes**: from a drained state with empty logs, whatever the schedule, the sequence
of values the host displays, and the sequence every other client displays behind the host's relay, is a subsequence of
the values written, in the order written -/
theorem client_epoch_ordered (w : Nat) (x : Option V) (s : State V) (as : List (Act V))
    (hn : (s.clients.map (·.id)).Nodup) (hw : ∃ c ∈ s.clients, c.id = w) (hc : Clean x s)
    (hlog : s.written = [] ∧ s.host.shown = [] ∧ ∀ c ∈ s.clients, c.p.shown = []) (ha : ∀ a ∈ as, ClientWrites w a) :
    List.Sublist (run ra false replace s as).host.shown (run ra false replace s as).written ∧
    ∀ c ∈ (run ra false replace s as).clients, c.id ≠ w →
      List.Sublist c.p.shown (run ra false replace s as).written := by
  have h0 : COrd w s := by
    refine ⟨clean_cinv w x s hn hc, hw, fun cw hcw hcwid => ?_⟩
    obtain ⟨h1, h2, h3, h4, h5, h6⟩ := hc
    obtain ⟨c1, c2, c3, c4, c5, c6, c7⟩ := h6 cw hcw
    have ht : tailOf cw = [] := by simp [tailOf, c6, c4, dvl, c2]
    refine ⟨by simp [chainH, hdVals, h5, ht, hlog.2.1, hlog.1], fun c hcm _ => ?_⟩
    obtain ⟨d1, d2, d3, d4, d5, d6, d7⟩ := h6 c hcm
    simp [chainC, hdVals, h5, ht, hlog.2.2 c hcm, d5, d7, hlog.1]
  obtain ⟨_, hp, ho⟩ := cord_run (ra := ra) w s as h0 ha
  obtain ⟨cw, hcw, hcwid⟩ := hp
  obtain ⟨o1, o2⟩ := ho cw hcw hcwid
  refine ⟨List.Sublist.trans (by simp only [chainH]; exact List.sublist_append_left _ _) o1, fun c hcm hne => ?_⟩
  exact List.Sublist.trans (by simp only [chainC]; exact List.sublist_append_left _ _) (o2 c hcm hne)

end Comp
end BevySync
