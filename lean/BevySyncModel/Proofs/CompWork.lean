import BevySyncModel.Proofs.Comp
/-! Bounded work (C09) and ordered observation (C10) on the component slice. -/
namespace BevySync
namespace Comp

variable {V : Type} [DecidableEq V]

def isWrite : Act V → Bool
  | .writeH _ => true
  | .writeC _ _ => true
  | _ => false

def writes (as : List (Act V)) : Nat := (as.filter isWrite).length

/-! ## a drained state stays silent: without application writes nothing is ever sent again -/

theorem clean_step_silent (x : Option V) (s : State V) (a : Act V) (hc : Clean x s) (ha : isWrite a = false) :
    Clean x (step ra false replace s a) ∧ (step ra false replace s a).sent = s.sent := by
  obtain ⟨h1, h2, h3, h4, h5, h6⟩ := hc
  cases a with
  | writeH v => simp [isWrite] at ha
  | writeC i v => simp [isWrite] at ha
  | detectH =>
    have e : detect s.host = s.host := by simp [detect, h2]
    simp only [step, e]; exact ⟨⟨h1, h2, h3, h4, h5, h6⟩, by first | rfl | trivial⟩
  | reactH =>
    have e : s.clients.map (fun c => { c with down := c.down ++ s.host.queue }) = s.clients := by
      rw [h4]; conv => rhs; rw [← List.map_id s.clients]
      apply List.map_congr_left; intro c _; simp
    have e' : s.clients.map (fun c => { c with down := c.down ++ [] }) = s.clients := by rw [h4] at e; exact e
    have hs : step ra false replace s .reactH = { s with host := { s.host with queue := [] } } := by
      simp only [step, h4, e', List.length_nil, Nat.zero_mul, Nat.add_zero]
    rw [hs]
    exact ⟨⟨h1, h2, h3, rfl, h5, h6⟩, rfl⟩
  | pollH i n =>
    simp only [step]
    cases hf : findClient i s.clients with
    | none => exact ⟨⟨h1, h2, h3, h4, h5, h6⟩, by first | rfl | trivial⟩
    | some c0 =>
      have hup : c0.up = [] := (h6 c0 (findClient_spec hf).1).2.2.2.2.2.1
      dsimp only
      refine ⟨⟨h1, h2, h3, h4, by simp [h5, hup], ?_⟩, by first | rfl | trivial⟩
      apply forall_onClient _ _ _ (fun c hcm _ => h6 c hcm)
      intro c hcm _
      obtain ⟨c1, c2, c3, c4, c5, c6, c7⟩ := h6 c hcm
      exact ⟨c1, c2, c3, c4, c5, by simp [c6], c7⟩
  | flushH => simp only [step, h5]; exact ⟨⟨h1, h2, h3, h4, h5, h6⟩, by first | rfl | trivial⟩
  | detectC i =>
    simp only [step]
    refine ⟨⟨h1, h2, h3, h4, h5, ?_⟩, by first | rfl | trivial⟩
    apply forall_onClient _ _ _ (fun c hcm _ => h6 c hcm)
    intro c hcm _
    obtain ⟨c1, c2, c3, c4, c5, c6, c7⟩ := h6 c hcm
    have e : detect c.p = c.p := by simp [detect, c2]
    simp only [e]; exact ⟨c1, c2, c3, c4, c5, c6, c7⟩
  | reactC i =>
    simp only [step]
    refine ⟨⟨h1, h2, h3, h4, h5, ?_⟩, ?_⟩
    · apply forall_onClient _ _ _ (fun c hcm _ => h6 c hcm)
      intro c hcm _
      obtain ⟨c1, c2, c3, c4, c5, c6, c7⟩ := h6 c hcm
      exact ⟨c1, c2, c3, rfl, c5, by simp [c6, c4], c7⟩
    · cases hf : findClient i s.clients with
      | none => simp
      | some c0 =>
        have := (h6 c0 (findClient_spec hf).1).2.2.2.1
        simp [this]
  | pollC i n =>
    simp only [step]
    refine ⟨⟨h1, h2, h3, h4, h5, ?_⟩, by first | rfl | trivial⟩
    apply forall_onClient _ _ _ (fun c hcm _ => h6 c hcm)
    intro c hcm _
    obtain ⟨c1, c2, c3, c4, c5, c6, c7⟩ := h6 c hcm
    exact ⟨c1, c2, c3, c4, by simp [c5, c7], c6, by simp [c7]⟩
  | flushC i =>
    simp only [step]
    refine ⟨⟨h1, h2, h3, h4, h5, ?_⟩, by first | rfl | trivial⟩
    apply forall_onClient _ _ _ (fun c hcm _ => h6 c hcm)
    intro c hcm _
    obtain ⟨c1, c2, c3, c4, c5, c6, c7⟩ := h6 c hcm
    simp only [c5]; exact ⟨c1, c2, c3, c4, by first | exact c5 | trivial, c6, c7⟩

/-- **self-quenching**: from a drained state, any number of further frames of any peers in any order,
without application writes, sends nothing and changes no value -/
theorem clean_run_silent (x : Option V) (s : State V) (as : List (Act V)) (hc : Clean x s)
    (ha : ∀ a ∈ as, isWrite a = false) :
    Clean x (run ra false replace s as) ∧ (run ra false replace s as).sent = s.sent := by
  induction as generalizing s with
  | nil => exact ⟨hc, rfl⟩
  | cons a as ih =>
    obtain ⟨h1, h2⟩ := clean_step_silent (ra := ra) x s a hc (ha a (by simp))
    obtain ⟨h3, h4⟩ := ih (step ra false replace s a) h1 (fun b hb => ha b (by simp [hb]))
    simp only [run, List.foldl_cons] at h3 h4 ⊢
    exact ⟨h3, by rw [h4, h2]⟩

/-! ## bounded work, host-writer epoch: at most N messages per write (N = number of clients) -/

def bit (b : Bool) : Nat := b.toNat

/-- messages already sent plus those the host still owes for what it has detected or not yet detected -/
def hPot (s : State V) : Nat := s.sent + s.clients.length * (s.host.queue.length + bit s.host.dirty)

theorem clients_length_step (lg : Bool) (pt : V → V → V) (s : State V) (a : Act V) :
    (step ra lg pt s a).clients.length = s.clients.length := by
  have := congrArg List.length (ids_step (ra := ra) lg pt s a)
  simpa using this

theorem hpot_step (s : State V) (a : Act V) (hi : HInv s) (ha : HostWrites a) :
    hPot (step ra false replace s a) ≤ hPot s + s.clients.length * bit (isWrite a) := by
  obtain ⟨ht, hd, hv, hc⟩ := hi
  have hl := clients_length_step (ra := ra) false replace s a
  unfold hPot
  rw [hl]
  generalize hN : s.clients.length = N at *
  cases a with
  | writeH v =>
    have e1 : (step ra false replace s (.writeH v)).sent = s.sent := rfl
    have e2 : (step ra false replace s (.writeH v)).host.queue = s.host.queue := rfl
    have e3 : (step ra false replace s (.writeH v)).host.dirty = true := rfl
    rw [e1, e2, e3]
    cases s.host.dirty <;> simp only [bit, isWrite, Bool.toNat_true, Bool.toNat_false, Nat.mul_add, Nat.mul_one, Nat.mul_zero] <;> omega
  | detectH =>
    have e1 : (step ra false replace s .detectH).sent = s.sent := rfl
    rw [e1]
    cases hdirty : s.host.dirty with
    | false =>
      have e : detect s.host = s.host := by simp [detect, hdirty]
      simp only [step, e, hdirty, isWrite, bit, Bool.toNat_false]; omega
    | true =>
      cases hval : s.host.val with
      | none => exact absurd hval (hv hdirty)
      | some v =>
        have e : detect s.host = { s.host with dirty := false, queue := s.host.queue ++ [v] } := by
          simp [detect, hdirty, ht, hval]
        simp only [step, e, isWrite, bit, Bool.toNat_false, Bool.toNat_true, List.length_append, List.length_cons,
          List.length_nil, Nat.mul_zero, Nat.add_zero]
        omega
  | reactH =>
    have e1 : (step ra false replace s .reactH).sent = s.sent + s.host.queue.length * N := by simp only [step, hN]
    have e2 : (step ra false replace s .reactH).host.queue = [] := rfl
    have e3 : (step ra false replace s .reactH).host.dirty = s.host.dirty := rfl
    rw [e1, e2, e3]
    simp only [isWrite, bit, Bool.toNat_false, List.length_nil, Nat.mul_zero, Nat.add_zero, Nat.zero_add, Nat.mul_add]
    rw [Nat.mul_comm s.host.queue.length N]
    omega
  | pollH i n =>
    have e1 : (step ra false replace s (.pollH i n)).sent = s.sent := by
      simp only [step]; cases findClient i s.clients <;> rfl
    have e2 : (step ra false replace s (.pollH i n)).host = s.host := by
      simp only [step]; cases findClient i s.clients <;> rfl
    rw [e1, e2]; simp [isWrite, bit]
  | flushH =>
    have e : step ra false replace s .flushH = s := by simp only [step, hd]
    rw [e]; simp [isWrite, bit]
  | writeC i v => exact absurd ha (by simp [HostWrites])
  | detectC i =>
    have e1 : (step ra false replace s (.detectC i)).sent = s.sent := rfl
    have e2 : (step ra false replace s (.detectC i)).host = s.host := rfl
    rw [e1, e2]; simp [isWrite, bit]
  | reactC i =>
    have e2 : (step ra false replace s (.reactC i)).host = s.host := rfl
    have e1 : (step ra false replace s (.reactC i)).sent = s.sent := by
      simp only [step]
      cases hf : findClient i s.clients with
      | none => simp
      | some c0 =>
        have := (hc c0 (findClient_spec hf).1).2.1
        simp [this]
    rw [e1, e2]; simp [isWrite, bit]
  | pollC i n =>
    have e1 : (step ra false replace s (.pollC i n)).sent = s.sent := rfl
    have e2 : (step ra false replace s (.pollC i n)).host = s.host := rfl
    rw [e1, e2]; simp [isWrite, bit]
  | flushC i =>
    have e1 : (step ra false replace s (.flushC i)).sent = s.sent := rfl
    have e2 : (step ra false replace s (.flushC i)).host = s.host := rfl
    rw [e1, e2]; simp [isWrite, bit]

theorem hpot_run (s : State V) (as : List (Act V)) (hi : HInv s) (ha : ∀ a ∈ as, HostWrites a) :
    hPot (run ra false replace s as) ≤ hPot s + s.clients.length * writes as := by
  induction as generalizing s with
  | nil => simp [run, writes]
  | cons a as ih =>
    have ha1 := ha a (by simp)
    have h1 := hpot_step (ra := ra) s a hi ha1
    have h2 := ih (step ra false replace s a) (hinv_step (ra := ra) s a hi ha1) (fun b hb => ha b (by simp [hb]))
    rw [clients_length_step (ra := ra)] at h2
    simp only [run, List.foldl_cons] at h2 ⊢
    have hw : writes (a :: as) = bit (isWrite a) + writes as := by
      simp only [writes, List.filter_cons, bit]
      cases isWrite a <;> simp <;> omega
    rw [hw, Nat.mul_add]
    omega

/-- **bounded work, host writes**: in an epoch starting from a drained state the number of messages ever
sent grows by at most `N` per application write, whatever the schedule -/
theorem host_epoch_bounded (x : Option V) (s : State V) (as : List (Act V)) (hc : Clean x s)
    (ha : ∀ a ∈ as, HostWrites a) :
    (run ra false replace s as).sent ≤ s.sent + s.clients.length * writes as := by
  have h := hpot_run (ra := ra) s as (clean_hinv x s hc) ha
  have h0 : hPot s = s.sent := by simp [hPot, hc.2.1, hc.2.2.2.1, bit]
  have : (run ra false replace s as).sent ≤ hPot (run ra false replace s as) := by simp [hPot]
  omega

end Comp
end BevySync

namespace BevySync
namespace Comp

variable {V : Type} [DecidableEq V]

/-! ## ordered observation (C10), host-writer epoch -/

/-- the value the host has written but `sync_detect` has not picked up yet -/
def dvl (p : Peer V) : List V := if p.dirty then p.val.toList else []

/-- everything client `c` has shown, followed by everything still on its way to it, in order -/
def hChain (h : Peer V) (c : Client V) : List V := c.p.shown ++ (c.defer ++ (c.down ++ (h.queue ++ dvl h)))

def HOrd (s : State V) : Prop := HInv s ∧ ∀ c ∈ s.clients, List.Sublist (hChain s.host c) s.written

theorem detect_shown (p : Peer V) : (detect p).shown = p.shown := by
  unfold detect; split
  · split
    · rfl
    · split <;> rfl
  · rfl

theorem apply_shown (p : Peer V) (v : V) :
    (apply false replace p v).1.shown = if (apply false replace p v).2 then p.shown ++ [v] else p.shown := by
  unfold apply
  by_cases hv : p.val = some v
  · simp [hv]
  · simp only [Bool.false_and, Bool.false_eq_true, if_false, hv, if_true]
    cases p.val <;> simp [replace]

theorem sublist_drop_mid {α : Type} (a b : List α) (v : α) (w : List α) (h : List.Sublist (a ++ (v :: b)) w) :
    List.Sublist (a ++ b) w :=
  List.Sublist.trans (List.Sublist.append (List.Sublist.refl a) (List.sublist_cons_self v b)) h

theorem hord_step (s : State V) (a : Act V) (hi : HOrd s) (ha : HostWrites a) :
    HOrd (step ra false replace s a) := by
  obtain ⟨hinv, ho⟩ := hi
  refine ⟨hinv_step (ra := ra) s a hinv ha, ?_⟩
  obtain ⟨ht, hd, hv, hc⟩ := hinv
  cases a with
  | writeH v =>
    intro c hcm
    have h0 := ho c hcm
    have e : hChain (step ra false replace s (.writeH v)).host c
        = (c.p.shown ++ (c.defer ++ (c.down ++ s.host.queue))) ++ [v] := by
      simp [hChain, step, write, dvl, List.append_assoc]
    rw [e]
    have hpre : List.Sublist (c.p.shown ++ (c.defer ++ (c.down ++ s.host.queue))) s.written := by
      refine List.Sublist.trans ?_ h0
      simp only [hChain, ← List.append_assoc]
      exact List.sublist_append_left _ _
    exact List.Sublist.append hpre (List.Sublist.refl [v])
  | detectH =>
    intro c hcm
    have h0 := ho c hcm
    cases hdirty : s.host.dirty with
    | false =>
      have e : detect s.host = s.host := by simp [detect, hdirty]
      simp only [step, e]; exact h0
    | true =>
      cases hval : s.host.val with
      | none => exact absurd hval (hv hdirty)
      | some v =>
        have e : detect s.host = { s.host with dirty := false, queue := s.host.queue ++ [v] } := by
          simp [detect, hdirty, ht, hval]
        simp only [step, e]
        simpa [hChain, dvl, hdirty, hval, List.append_assoc] using h0
  | reactH =>
    simp only [step]
    apply forall_map
    intro c hcm
    have h0 := ho c hcm
    simpa [hChain, dvl, List.append_assoc] using h0
  | pollH i n =>
    simp only [step]
    cases hf : findClient i s.clients with
    | none => exact ho
    | some c0 =>
      dsimp only
      apply forall_onClient _ _ _ (fun c hcm _ => ho c hcm)
      intro c hcm _
      exact ho c hcm
  | flushH => simp only [step, hd]; exact ho
  | writeC i v => exact absurd ha (by simp [HostWrites])
  | detectC i =>
    simp only [step]
    apply forall_onClient _ _ _ (fun c hcm _ => ho c hcm)
    intro c hcm _
    have h0 := ho c hcm
    simpa [hChain, detect_shown] using h0
  | reactC i =>
    simp only [step]
    apply forall_onClient _ _ _ (fun c hcm _ => ho c hcm)
    intro c hcm _
    exact ho c hcm
  | pollC i n =>
    simp only [step]
    apply forall_onClient _ _ _ (fun c hcm _ => ho c hcm)
    intro c hcm _
    have h0 := ho c hcm
    have e : c.defer ++ List.take n c.down ++ (List.drop n c.down ++ (s.host.queue ++ dvl s.host))
        = c.defer ++ (c.down ++ (s.host.queue ++ dvl s.host)) := by
      rw [List.append_assoc, ← List.append_assoc (List.take n c.down), List.take_append_drop]
    simpa [hChain, e] using h0
  | flushC i =>
    simp only [step]
    apply forall_onClient _ _ _ (fun c hcm _ => ho c hcm)
    intro c hcm _
    have h0 := ho c hcm
    cases hdef : c.defer with
    | nil => simp only []; simpa [hChain, hdef] using h0
    | cons v rest =>
      simp only []
      simp only [hChain, hdef, List.cons_append] at h0
      simp only [hChain, apply_shown]
      cases (apply false replace c.p v).2 with
      | true => simpa [List.append_assoc] using h0
      | false =>
        simp only [Bool.false_eq_true, if_false]
        exact sublist_drop_mid _ _ v _ h0

theorem hord_run (s : State V) (as : List (Act V)) (hi : HOrd s) (ha : ∀ a ∈ as, HostWrites a) :
    HOrd (run ra false replace s as) := by
  induction as generalizing s with
  | nil => exact hi
  | cons a as ih =>
    have := ih (step ra false replace s a) (hord_step (ra := ra) s a hi (ha a (by simp))) (fun b hb => ha b (by simp [hb]))
    simpa [run] using this

/-- **ordered observation, host writes**: from a drained state with empty logs, whatever the schedule,
the sequence of values any client displays is a subsequence of the values written, in the order written -/
theorem host_epoch_ordered (x : Option V) (s : State V) (as : List (Act V)) (hc : Clean x s)
    (hlog : s.written = [] ∧ ∀ c ∈ s.clients, c.p.shown = []) (ha : ∀ a ∈ as, HostWrites a) :
    ∀ c ∈ (run ra false replace s as).clients, List.Sublist c.p.shown (run ra false replace s as).written := by
  have h0 : HOrd s := by
    refine ⟨clean_hinv x s hc, fun c hcm => ?_⟩
    obtain ⟨c1, c2, c3, c4, c5, c6, c7⟩ := hc.2.2.2.2.2 c hcm
    simp [hChain, hlog.2 c hcm, c5, c7, hc.2.2.2.1, dvl, hc.2.1, hlog.1]
  intro c hcm
  have := (hord_run s as h0 ha).2 c hcm
  refine List.Sublist.trans ?_ this
  simp only [hChain]
  exact List.sublist_append_left _ _

end Comp
end BevySync
