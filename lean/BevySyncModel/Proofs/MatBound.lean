import BevySyncModel.Proofs.Mat
import BevySyncModel.Proofs.SumPot
/-! Bounded work in the material slice (C09), for **any** mix of writers and any schedule: each application publication
costs at most `N + 1` messages (`N` clients); applying a material received from the network never leaves the receiver
with an announcement to make (the debounce entry filed by the apply covers the `AssetEvent` it raises).

Potential: messages sent so far, plus `N + 1` for every event not covered by a debounce entry, plus `N` for every message
on its way up or waiting in the host's closures (the host relays each to at most `N` clients).  With the set semantics of
the entries before their repair (`countTokens = false`) an apply can *uncover* an event, and the bound fails. -/
namespace BevySync
namespace Mat
open SumPot

def owes (W : Nat) (p : Peer) : Nat := W * (p.events - p.tokens)

def cw (N : Nat) (c : Client) : Nat := owes (N + 1) c.p + N * c.up.length

def pot (s : State) : Nat :=
  s.sent + owes (s.clients.length + 1) s.host + s.clients.length * s.hdefer.length + total (cw s.clients.length) s.clients

def cost : Act → Nat
  | .publishH _ | .publishC _ _ => 1
  | _ => 0

def ops (as : List Act) : Nat := (as.map cost).sum

theorem owes_publish (W : Nat) (p : Peer) (v : Nat) : owes W (publish p v) ≤ owes W p + W := by
  simp only [owes, publish]
  have : p.events + 1 - p.tokens ≤ (p.events - p.tokens) + 1 := by omega
  exact Nat.le_trans (Nat.mul_le_mul_left W this) (by rw [Nat.mul_succ]; exact Nat.le_refl _)

theorem owes_apply (W : Nat) (p : Peer) (v : Nat) : owes W (apply true p v) = owes W p := by
  simp only [owes, apply, if_true]
  congr 1
  omega

theorem owes_react_le (W : Nat) (p : Peer) : owes W (react p).1 ≤ owes W p := by
  simp only [owes, react]
  split
  · exact Nat.le_refl _
  · split
    · exact Nat.mul_le_mul_left W (by simp only; omega)
    · exact Nat.mul_le_mul_left W (by simp only; omega)

theorem owes_react_some (W : Nat) (p : Peer) (v : Nat) (h : (react p).2 = some v) : owes W (react p).1 + W ≤ owes W p := by
  simp only [react] at h
  split at h
  · cases h
  · split at h
    · cases h
    · rename_i he ht
      have ht0 : p.tokens = 0 := by omega
      obtain ⟨k, hk⟩ : ∃ k, p.events = k + 1 := ⟨p.events - 1, by omega⟩
      simp only [owes, react, ht0, Nat.sub_zero, hk, Nat.add_sub_cancel, Nat.mul_succ]
      exact Nat.le_refl _

/-! ## transitions by name -/

def paid (i : Nat) (cs : List Client) : Nat :=
  match findClient i cs with
  | some c => if (react c.p).2.isSome then 1 else 0
  | none => 0

theorem step_reactC (ct : Bool) (s : State) (i : Nat) : step ct s (.reactC i) =
    { s with clients := onClient i cReact s.clients, sent := s.sent + paid i s.clients } := rfl

theorem cw_cReact (N : Nat) (c : Client) : cw N (cReact c) + (if (react c.p).2.isSome then 1 else 0) ≤ cw N c := by
  cases hr : (react c.p).2 with
  | none =>
    have := owes_react_le (N + 1) c.p
    simp only [cReact, hr, cw, Option.isSome_none, Bool.false_eq_true, if_false]
    omega
  | some v =>
    have := owes_react_some (N + 1) c.p v hr
    simp only [cReact, hr, cw, Option.isSome_some, if_true, List.length_append, List.length_singleton, Nat.mul_succ]
    omega

theorem length_step (s : State) (a : Act) : (step true s a).clients.length = s.clients.length := by
  have := congrArg List.length (ids_step true s a)
  simpa using this

theorem pot_step (s : State) (a : Act) (hn : (s.clients.map (·.id)).Nodup) :
    pot (step true s a) ≤ pot s + (s.clients.length + 1) * cost a := by
  cases a with
  | publishH v =>
    have := owes_publish (s.clients.length + 1) s.host v
    simp only [pot, step, cost, Nat.mul_one]
    omega
  | reactH =>
    simp only [cost, Nat.mul_zero, Nat.add_zero]
    cases hr : (react s.host).2 with
    | none =>
      have := owes_react_le (s.clients.length + 1) s.host
      simp only [step, hr, pot]
      omega
    | some v =>
      have := owes_react_some (s.clients.length + 1) s.host v hr
      have he := total_map_eq (cw s.clients.length) (fun c : Client => { c with down := c.down ++ [v] }) s.clients
        (fun c _ => rfl)
      simp only [step, hr, pot, List.length_map, he]
      omega
  | pollH i =>
    simp only [cost, Nat.mul_zero, Nat.add_zero]
    cases hf : findClient i s.clients with
    | none => simp only [step, hf]; exact Nat.le_refl _
    | some c0 =>
      cases hup : c0.up with
      | nil => simp only [step, hf, hup]; exact Nat.le_refl _
      | cons v rest =>
        simp only [step, hf, hup]
        have hpay := total_on_pay_nodup (cw s.clients.length) (·.id) i s.clients.length
          (fun c : Client => { c with up := rest }) s.clients c0 hn hf
          (by simp only [cw, hup, List.length_cons, Nat.mul_succ]; omega)
        have hl : (onClient i (fun c : Client => { c with up := rest }) s.clients).length = s.clients.length :=
          length_on _ _ _ _
        simp only [pot, hl, List.length_append, List.length_singleton, Nat.mul_succ]
        have e : onClient i (fun c : Client => { c with up := rest }) s.clients =
            on (·.id) i (fun c : Client => { c with up := rest }) s.clients := rfl
        rw [e]
        omega
  | flushH =>
    simp only [cost, Nat.mul_zero, Nat.add_zero]
    cases hd : s.hdefer with
    | nil => simp only [step, hd]; exact Nat.le_refl _
    | cons iv rest =>
      obtain ⟨i, v⟩ := iv
      have hf := List.length_filter_le (fun c : Client => c.id ≠ i) s.clients
      have he := total_map_eq (cw s.clients.length) (fun c : Client => if c.id = i then c else { c with down := c.down ++ [v] })
        s.clients (fun c _ => by split <;> rfl)
      have ha := owes_apply (s.clients.length + 1) s.host v
      simp only [step, hd, pot, List.length_map, he, ha, List.length_cons, Nat.mul_succ]
      omega
  | publishC i v =>
    simp only [pot, step, cost, Nat.mul_one]
    have hl : (onClient i (cPublish v) s.clients).length = s.clients.length := length_on _ _ _ _
    have := total_on_add (cw s.clients.length) (·.id) i (s.clients.length + 1) (cPublish v) s.clients hn
      (by
        intro c _
        have := owes_publish (s.clients.length + 1) c.p v
        simp only [cw, cPublish]
        omega)
    have e : onClient i (cPublish v) s.clients = on (·.id) i (cPublish v) s.clients := rfl
    rw [hl, e]
    omega
  | reactC i =>
    rw [step_reactC]
    simp only [pot, cost, Nat.mul_zero, Nat.add_zero]
    have hl : (onClient i cReact s.clients).length = s.clients.length := length_on _ _ _ _
    have e : onClient i cReact s.clients = on (·.id) i cReact s.clients := rfl
    rw [hl, e]
    cases hf : findClient i s.clients with
    | none =>
      rw [on_absent (·.id) i cReact s.clients (find_none_absent (fun c : Client => c.id) hf)]
      simp only [paid, hf]
      omega
    | some c0 =>
      have := total_on_pay (cw s.clients.length) (·.id) i (if (react c0.p).2.isSome then 1 else 0) cReact s.clients c0 hf
        (fun c _ => Nat.le_trans (Nat.le_add_right _ _) (cw_cReact _ c)) (cw_cReact _ c0)
      simp only [paid, hf]
      omega
  | pollC i =>
    simp only [pot, step, cost, Nat.mul_zero, Nat.add_zero]
    have hl : (onClient i cPoll s.clients).length = s.clients.length := length_on _ _ _ _
    have e : onClient i cPoll s.clients = on (·.id) i cPoll s.clients := rfl
    have := total_on_le (cw s.clients.length) (·.id) i cPoll s.clients
      (by
        intro c _
        cases hdn : c.down with
        | nil => simp only [cPoll, hdn]; exact Nat.le_refl _
        | cons v rest => simp only [cPoll, hdn, cw]; exact Nat.le_refl _)
    rw [hl, e]
    omega
  | flushC i =>
    simp only [pot, step, cost, Nat.mul_zero, Nat.add_zero]
    have hl : (onClient i (cFlush true) s.clients).length = s.clients.length := length_on _ _ _ _
    have e : onClient i (cFlush true) s.clients = on (·.id) i (cFlush true) s.clients := rfl
    have := total_on_le (cw s.clients.length) (·.id) i (cFlush true) s.clients
      (by
        intro c _
        cases hdf : c.defer with
        | nil => simp only [cFlush, hdf]; exact Nat.le_refl _
        | cons v rest =>
          have := owes_apply (s.clients.length + 1) c.p v
          simp only [cFlush, hdf, cw, this]
          exact Nat.le_refl _)
    rw [hl, e]
    omega

theorem pot_run (s : State) (as : List Act) (hn : (s.clients.map (·.id)).Nodup) :
    (run true s as).clients.length = s.clients.length ∧ pot (run true s as) ≤ pot s + (s.clients.length + 1) * ops as := by
  induction as generalizing s with
  | nil => exact ⟨rfl, by simp [run, ops]⟩
  | cons a as ih =>
    have hn' : ((step true s a).clients.map (·.id)).Nodup := by rw [ids_step]; exact hn
    obtain ⟨h1, h2⟩ := ih (step true s a) hn'
    have h3 := pot_step s a hn
    have hl := length_step s a
    simp only [run, List.foldl_cons] at h1 h2 ⊢
    refine ⟨by rw [h1, hl], ?_⟩
    rw [hl] at h2
    simp only [ops, List.map_cons, List.sum_cons, Nat.mul_add] at h2 ⊢
    omega

/-- every event is covered by a debounce entry and nothing is on its way to or through the host -/
def Calm (s : State) : Prop :=
  s.host.events ≤ s.host.tokens ∧ s.hdefer = [] ∧ ∀ c ∈ s.clients, c.p.events ≤ c.p.tokens ∧ c.up = []

theorem pot_calm (s : State) (h : Calm s) : pot s = s.sent := by
  obtain ⟨h1, h2, h3⟩ := h
  have hz : total (cw s.clients.length) s.clients = 0 := by
    apply total_zero
    intro c hc
    obtain ⟨a, b⟩ := h3 c hc
    simp only [cw, owes, b, List.length_nil, Nat.mul_zero, Nat.add_zero]
    rw [Nat.sub_eq_zero_of_le a, Nat.mul_zero]
  simp only [pot, owes, h2, hz, List.length_nil, Nat.mul_zero, Nat.add_zero]
  rw [Nat.sub_eq_zero_of_le h1, Nat.mul_zero, Nat.add_zero]

theorem settled_calm (x : Option Nat) (s : State) (h : Settled x s) : Calm s := by
  obtain ⟨_, he, ht, hd, hc⟩ := h
  refine ⟨by omega, hd, fun c hcm => ?_⟩
  obtain ⟨_, ce, ct, _, cu, _⟩ := hc c hcm
  exact ⟨by omega, cu⟩

theorem sent_le_pot (s : State) : s.sent ≤ pot s := by
  unfold pot; omega

/-- **bounded work, materials, any writers.** From a calm state, any schedule of any peers' systems with publications by
any peers sends at most `N + 1` messages per publication. -/
theorem mat_traffic_bounded (s : State) (as : List Act) (hn : (s.clients.map (·.id)).Nodup) (hc : Calm s) :
    (run true s as).sent ≤ s.sent + (s.clients.length + 1) * ops as := by
  have := (pot_run s as hn).2
  rw [pot_calm s hc] at this
  exact Nat.le_trans (sent_le_pot _) this

/-- **self-quenching**: without publications only what is already owed is sent -/
theorem mat_quiet (s : State) (as : List Act) (hn : (s.clients.map (·.id)).Nodup) (h0 : ops as = 0) :
    (run true s as).sent ≤ pot s := by
  have := (pot_run s as hn).2
  rw [h0] at this
  exact Nat.le_trans (sent_le_pot _) (by simpa using this)

/-- with the set semantics of the debounce entries (before the repair) the potential is not monotone: two applies in a
row leave one event uncovered, which the reader then announces -/
example :
    let s0 : State := { clients := [{ id := 1, defer := [5, 6] }] }
    let s1 := run false s0 [.flushC 1, .flushC 1, .reactC 1, .reactC 1]
    s1.sent = 1 ∧ ops [Act.flushC 1, .flushC 1, .reactC 1, .reactC 1] = 0 := by decide

end Mat
end BevySync
