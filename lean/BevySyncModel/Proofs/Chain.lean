import BevySyncModel.Slice.Chain
import BevySyncModel.Proofs.Promo
/-! Chains of hand-overs between two peers.  The ghost state is finite (`snapReq` is reset by every request), so every
schedule of frames and requests stays inside the finitely many states of `reachC` (closure checked by the kernel); every
state of that list in which no frame moves anything is a session at rest whose host is the peer chosen by the last
request, and the former host of that hand-over has asked for the snapshot exactly once. -/
namespace BevySync
namespace Chain

def succs (s : State) : List State := allActs.map (step s)

def close : Nat → List State → List State
  | 0, l => l
  | fuel + 1, l =>
    let new := (l.flatMap succs).filter (fun s => !l.contains s)
    if new.isEmpty then l else close fuel (l ++ new.eraseDups)

def reachC : List State := close 60 [rest0]

theorem mem_allActs (a : Act) : a ∈ allActs := by
  cases a with
  | frame w d acc g => cases w <;> cases d <;> cases acc <;> cases g <;> decide
  | request w => cases w <;> decide

theorem reachC_closed : ∀ s ∈ reachC, ∀ a : Act, step s a ∈ reachC := by
  have h : ∀ s ∈ reachC, ∀ a ∈ allActs, step s a ∈ reachC := by decide +kernel
  intro s hs a
  exact h s hs a (mem_allActs a)

theorem rest0_in_reachC : rest0 ∈ reachC := by decide +kernel

theorem run_in_reachC (as : List Act) : ∀ s ∈ reachC, run s as ∈ reachC := by
  induction as with
  | nil => intro s hs; exact hs
  | cons a as ih => intro s hs; exact ih _ (reachC_closed s hs a)

/-- what a settled session looks like: at rest, hosted by the peer the parity of carried-out requests says, which is
the peer chosen by the last request; the other peer (the former host of that hand-over) asked for the snapshot once -/
def Handed (s : State) : Prop :=
  RestAt s.flips s ∧
  (s.target = none ∧ s.flips = false ∨ s.target = some s.flips ∧ (other s s.flips).snapReq = 1)

instance (s : State) : Decidable (Handed s) := by unfold Handed; infer_instance

theorem reachC_settled_handed : ∀ s ∈ reachC, Settled s → Handed s := by decide +kernel

/-- along the way: somebody hosts at every moment; nobody asks for the snapshot twice in one hand-over; a peer that
still holds its server has not asked -/
theorem reachC_safe : ∀ s ∈ reachC,
    (s.a.srv = true ∨ s.b.srv = true) ∧ s.a.snapReq ≤ 1 ∧ s.b.snapReq ≤ 1 ∧
    (s.a.snapReq = 1 → s.a.srv = false) ∧ (s.b.snapReq = 1 → s.b.srv = false) := by
  decide +kernel

/-- a request is carried out exactly in a settled session (a session at rest is settled, and the only settled states
are the two rests) -/
theorem reachC_rest_iff_settled : ∀ s ∈ reachC, (Settled s ↔ RestAt false s ∨ RestAt true s) := by decide +kernel

theorem chain_handover (as : List Act) (h : Settled (run rest0 as)) : Handed (run rest0 as) :=
  reachC_settled_handed _ (run_in_reachC as _ rest0_in_reachC) h

theorem chain_safe (as : List Act) :
    ((run rest0 as).a.srv = true ∨ (run rest0 as).b.srv = true) ∧
    (run rest0 as).a.snapReq ≤ 1 ∧ (run rest0 as).b.snapReq ≤ 1 :=
  let h := reachC_safe _ (run_in_reachC as _ rest0_in_reachC)
  ⟨h.1, h.2.1, h.2.2.1⟩

/-- the ghost bit is the parity of the requests carried out -/
theorem flips_parity (as : List Act) : ∀ s : State,
    (run s as).flips = (s.flips != decide (requests s as % 2 = 1)) := by
  induction as with
  | nil => intro s; simp [run, requests]
  | cons a as ih =>
    intro s
    have hr : run s (a :: as) = run (step s a) as := rfl
    rw [hr, ih (step s a)]
    cases a with
    | frame w d acc g =>
      have hf : (step s (.frame w d acc g)).flips = s.flips := by
        cases w <;> simp [step, put]
      simp [requests, taken, hf]
    | request w =>
      by_cases hw : RestAt w s
      · have hf : (step s (.request w)).flips = !s.flips := by simp [step, hw]
        have ht : taken s (.request w) = true := by simp [taken, hw]
        rw [hf]
        simp only [requests, ht, if_true]
        have : (1 + requests (step s (.request w)) as) % 2 = 1 ↔ ¬ (requests (step s (.request w)) as % 2 = 1) := by omega
        cases hfl : s.flips <;> by_cases hp : requests (step s (.request w)) as % 2 = 1 <;> simp [hp, this]
      · have hs : step s (.request w) = s := by simp [step, hw]
        have ht : taken s (.request w) = false := by simp [taken, hw]
        simp [requests, ht, hs]

/-- **who hosts after a chain.** In a settled session peer `a` hosts when an even number of requests has been carried
out and peer `b` when an odd number has: every request carried out is a completed hand-over. -/
theorem chain_alternates (as : List Act) (h : Settled (run rest0 as)) :
    RestAt (decide (requests rest0 as % 2 = 1)) (run rest0 as) := by
  have hh := (chain_handover as h).1
  have hp := flips_parity as rest0
  have h0 : rest0.flips = false := rfl
  rw [h0] at hp
  have : (run rest0 as).flips = decide (requests rest0 as % 2 = 1) := by
    rw [hp]; cases decide (requests rest0 as % 2 = 1) <;> rfl
  rw [this] at hh
  exact hh

/-- one complete hand-over from a rest hosted by `w`, as a schedule -/
def handoverActs (w : Bool) : List Act :=
  [.request w, .frame (!w) true false false, .frame w true false false, .frame w false false false,
   .frame (!w) false true false, .frame w false false true, .frame w false false false]

/-- three hand-overs in a row (a → b → a → b) complete: the statements above are not vacuous, and the third request of a
peer that has promoted before is carried out like its first -/
theorem three_handovers :
    Settled (run rest0 (handoverActs false ++ handoverActs true ++ handoverActs false)) ∧
    RestAt true (run rest0 (handoverActs false ++ handoverActs true ++ handoverActs false)) ∧
    requests rest0 (handoverActs false ++ handoverActs true ++ handoverActs false) = 3 := by
  decide +kernel

/-! ### the first hand-over of a chain is the hand-over of `Slice/Promo.lean` -/

/-- the chain's state seen as a state of the single hand-over: `a` the former host, `b` the promoted client -/
def view (s : State) : Promo.State :=
  { hSrv := s.a.srv, hClients := s.a.clients, hDisc := s.a.disc, hPromo := s.a.promo, hCli := s.a.cli,
    snapReq := s.a.snapReq, pSrv := s.b.srv, pPromo := s.b.promo, pCli := s.b.cli == 4, pClients := s.b.clients,
    accepted := s.a.accepted, promoteMsg := s.b.inPromote, newHostMsg := s.a.inNewHost, othersTold := 0 }

def lift : Promo.Act → List Act
  | .pFrame d acc => [.frame true d acc false]
  | .hFrame d g => [.frame false d false g]
  | .otherLeaves => []

def first0 : State := step rest0 (.request false)

def succsP (s : State) : List State := Promo.allActs.map (fun a => run s (lift a))

def closeP : Nat → List State → List State
  | 0, l => l
  | fuel + 1, l =>
    let new := (l.flatMap succsP).filter (fun s => !l.contains s)
    if new.isEmpty then l else closeP fuel (l ++ new.eraseDups)

def reachP : List State := closeP 40 [first0]

theorem reachP_sim : ∀ s ∈ reachP, ∀ a ∈ Promo.allActs,
    run s (lift a) ∈ reachP ∧ view (run s (lift a)) = Promo.step (view s) a := by
  decide +kernel

theorem first0_in_reachP : first0 ∈ reachP ∧ view first0 = Promo.init 0 := by decide +kernel

/-- every schedule of the single hand-over, replayed frame by frame on the chain model after its first request, shows
the same roles, flags, transports, client counts, messages and snapshot requests -/
theorem first_handover_is_promo (as : List Promo.Act) :
    view (run first0 (as.flatMap lift)) = Promo.run (Promo.init 0) as := by
  have gen : ∀ (as : List Promo.Act) (s : State), s ∈ reachP →
      view (run s (as.flatMap lift)) = Promo.run (view s) as := by
    intro as
    induction as with
    | nil => intro s _; rfl
    | cons a as ih =>
      intro s hs
      have h := reachP_sim s hs a (Promo.mem_allActs a)
      have hr : run s ((a :: as).flatMap lift) = run (run s (lift a)) (as.flatMap lift) := by
        simp [run, List.flatMap_cons, List.foldl_append]
      rw [hr, ih _ h.1, h.2]
      rfl
  rw [gen as first0 first0_in_reachP.1, first0_in_reachP.2]

end Chain
end BevySync
