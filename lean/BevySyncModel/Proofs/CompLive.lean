import BevySyncModel.Proofs.CompPot
/-! Bounded time to quiescence in the component slice (C09's "message flow stops within a bounded number of frames", and
the premise of every convergence theorem of C02 / C05 / C10): from **any** state — reachable or not, whatever is queued,
in flight or half applied, for any number of clients — three fair rounds without application writes end in a quiescent
state.  A fair round is a schedule of the model's own actions: the host detects, reacts, polls every client's channel and
runs every closure; then every client detects, reacts, polls its channel and runs every closure.  (A real frame of every
peer contains these system runs; the order inside the round does not matter for the bound, a different order costs at
most one more round.) -/
namespace BevySync
namespace Comp

variable {V : Type} [DecidableEq V] {ra : Bool}

instance decQuiescent (s : State V) : Decidable (Quiescent s) := by
  unfold Quiescent; infer_instance

/-! ## small tools -/

def iter {α : Type} (f : α → α) : Nat → α → α
  | 0, a => a
  | n + 1, a => iter f n (f a)

theorem foldl_max_ge (l : List Nat) (a : Nat) : a ≤ l.foldl max a ∧ ∀ x ∈ l, x ≤ l.foldl max a := by
  induction l generalizing a with
  | nil => exact ⟨Nat.le_refl _, fun _ h => by cases h⟩
  | cons y l ih =>
    obtain ⟨h1, h2⟩ := ih (max a y)
    refine ⟨Nat.le_trans (Nat.le_max_left a y) h1, ?_⟩
    intro x hx
    simp only [List.mem_cons] at hx
    rcases hx with rfl | hx
    · exact Nat.le_trans (Nat.le_max_right a x) h1
    · exact h2 x hx

def maxUp (s : State V) : Nat := (s.clients.map (·.up.length)).foldl max 0
def maxDown (s : State V) : Nat := (s.clients.map (·.down.length)).foldl max 0
def maxDefer (s : State V) : Nat := (s.clients.map (·.defer.length)).foldl max 0

theorem le_maxUp (s : State V) (c : Client V) (h : c ∈ s.clients) : c.up.length ≤ maxUp s :=
  (foldl_max_ge _ 0).2 _ (List.mem_map.mpr ⟨c, h, rfl⟩)
theorem le_maxDown (s : State V) (c : Client V) (h : c ∈ s.clients) : c.down.length ≤ maxDown s :=
  (foldl_max_ge _ 0).2 _ (List.mem_map.mpr ⟨c, h, rfl⟩)
theorem le_maxDefer (s : State V) (c : Client V) (h : c ∈ s.clients) : c.defer.length ≤ maxDefer s :=
  (foldl_max_ge _ 0).2 _ (List.mem_map.mpr ⟨c, h, rfl⟩)

theorem onClient_onClient (i : Nat) (f g : Client V → Client V) (cs : List (Client V)) (hg : ∀ c, (g c).id = c.id) :
    onClient i f (onClient i g cs) = onClient i (fun c => f (g c)) cs := by
  unfold onClient
  rw [List.map_map]
  apply List.map_congr_left
  intro c _
  simp only [Function.comp]
  by_cases h : c.id = i
  · simp [h, hg c]
  · simp [h]

theorem onClient_congr (i : Nat) (f g : Client V → Client V) (cs : List (Client V))
    (h : ∀ c ∈ cs, c.id = i → f c = g c) : onClient i f cs = onClient i g cs := by
  unfold onClient
  apply List.map_congr_left
  intro c hc
  by_cases hi : c.id = i
  · simp [hi, h c hc hi]
  · simp [hi]

/-! ## what a peer does with a run of closures -/

def flushSeq (pt : V → V → V) (p : Peer V) (vs : List V) : Peer V := vs.foldl (fun p v => (apply false pt p v).1) p

theorem apply_keeps (pt : V → V → V) (p : Peer V) (v : V) :
    (apply false pt p v).1.queue = p.queue ∧ ((p.dirty = true → p.token = true) →
      ((apply false pt p v).1.dirty = true → (apply false pt p v).1.token = true)) := by
  unfold apply
  by_cases h : p.val = some v
  · simp [h]
  · simp [h]

theorem flushSeq_keeps (pt : V → V → V) (vs : List V) (p : Peer V) :
    (flushSeq pt p vs).queue = p.queue ∧ ((p.dirty = true → p.token = true) →
      ((flushSeq pt p vs).dirty = true → (flushSeq pt p vs).token = true)) := by
  induction vs generalizing p with
  | nil => exact ⟨rfl, fun h => h⟩
  | cons v vs ih =>
    obtain ⟨a1, a2⟩ := apply_keeps pt p v
    obtain ⟨b1, b2⟩ := ih (apply false pt p v).1
    exact ⟨by simp only [flushSeq, List.foldl_cons] at b1 ⊢; rw [b1, a1], fun h => b2 (a2 h)⟩

theorem detect_post (p : Peer V) : (detect p).dirty = false := by
  unfold detect
  split
  · split
    · rfl
    · split <;> rfl
  · rename_i h; simpa using h

theorem detect_covered (p : Peer V) (h : p.dirty = true → p.token = true) : (detect p).queue = p.queue := by
  unfold detect
  cases hd : p.dirty with
  | false => simp
  | true => simp [h hd]

/-! ## one client's part of a round -/

/-- detect, react, poll everything, run every closure — as a function of the client alone -/
def cRound (pt : V → V → V) (c : Client V) : Client V :=
  { c with p := flushSeq pt { (detect c.p) with queue := [] } (c.defer ++ c.down),
           up := c.up ++ (detect c.p).queue, down := [], defer := [] }

theorem cRound_id (pt : V → V → V) (c : Client V) : (cRound pt c).id = c.id := rfl

def clientPhase (pt : V → V → V) (i : Nat) (s : State V) : State V :=
  let s1 := step ra false pt s (.detectC i)
  let s2 := step ra false pt s1 (.reactC i)
  let s3 := step ra false pt s2 (.pollC i (maxDown s2))
  iter (fun t => step ra false pt t (.flushC i)) (maxDefer s3) s3

theorem iter_flushC (pt : V → V → V) (i : Nat) (m : Nat) (s : State V) :
    (iter (fun t => step ra false pt t (.flushC i)) m s).clients = onClient i (iter (cFlushF pt) m) s.clients ∧
    (iter (fun t => step ra false pt t (.flushC i)) m s).host = s.host ∧
    (iter (fun t => step ra false pt t (.flushC i)) m s).hdefer = s.hdefer := by
  induction m generalizing s with
  | zero =>
    refine ⟨?_, rfl, rfl⟩
    simp only [iter]
    unfold onClient
    conv => lhs; rw [← List.map_id s.clients]
    apply List.map_congr_left
    intro c _
    split <;> rfl
  | succ m ih =>
    obtain ⟨h1, h2, h3⟩ := ih (step ra false pt s (.flushC i))
    simp only [iter]
    refine ⟨?_, by rw [h2]; rfl, by rw [h3]; rfl⟩
    rw [h1, step_flushC]
    exact onClient_onClient i _ _ _ (fun c => by unfold cFlushF; split <;> rfl)

theorem iter_cFlushF (pt : V → V → V) (m : Nat) (c : Client V) (h : c.defer.length ≤ m) :
    iter (cFlushF pt) m c = { c with p := flushSeq pt c.p c.defer, defer := [] } := by
  induction m generalizing c with
  | zero =>
    have : c.defer = [] := List.eq_nil_of_length_eq_zero (Nat.le_zero.mp h)
    simp only [iter, this, flushSeq, List.foldl_nil]
    cases c; simp_all
  | succ m ih =>
    simp only [iter]
    cases hd : c.defer with
    | nil =>
      have e : cFlushF pt c = c := by simp [cFlushF, hd]
      rw [e, ih c (by rw [hd]; exact Nat.zero_le _), hd]
    | cons v rest =>
      have e : cFlushF pt c = { c with p := (apply false pt c.p v).1, defer := rest } := by simp [cFlushF, hd]
      rw [e, ih _ (by simp only; rw [hd] at h; simp only [List.length_cons] at h; omega)]
      simp [flushSeq]

def pollF (n : Nat) (c : Client V) : Client V := { c with defer := c.defer ++ c.down.take n, down := c.down.drop n }

def detectF (c : Client V) : Client V := { c with p := detect c.p }

/-- the four kinds of step of one client with explicit counts -/
theorem client_steps (pt : V → V → V) (i n m : Nat) (s : State V) :
    (iter (fun t => step ra false pt t (.flushC i)) m
      (step ra false pt (step ra false pt (step ra false pt s (.detectC i)) (.reactC i)) (.pollC i n))).clients =
      onClient i (fun c => iter (cFlushF pt) m (pollF n (cReactF (detectF c)))) s.clients := by
  rw [(iter_flushC (ra := ra) pt i m _).1]
  have e1 : (step ra false pt s (.detectC i)).clients = onClient i detectF s.clients := rfl
  have e2 : ∀ t : State V, (step ra false pt t (.reactC i)).clients = onClient i cReactF t.clients := fun _ => rfl
  have e3 : ∀ t : State V, (step ra false pt t (.pollC i n)).clients = onClient i (pollF n) t.clients := fun _ => rfl
  rw [e3, e2, e1]
  rw [onClient_onClient i cReactF detectF _ (fun _ => rfl)]
  rw [onClient_onClient i (pollF n) (fun c => cReactF (detectF c)) _ (fun _ => rfl)]
  rw [onClient_onClient i (iter (cFlushF pt) m) (fun c => pollF n (cReactF (detectF c))) _ (fun _ => rfl)]

theorem cRound_of_counts (pt : V → V → V) (n m : Nat) (c : Client V) (hn : c.down.length ≤ n)
    (hm : c.defer.length + c.down.length ≤ m) : iter (cFlushF pt) m (pollF n (cReactF (detectF c))) = cRound pt c := by
  have hd : (cReactF (detectF c)).down = c.down := rfl
  have hf : (cReactF (detectF c)).defer = c.defer := rfl
  rw [iter_cFlushF pt m _ (by simp only [pollF, hd, hf, List.length_append, List.length_take]; omega)]
  simp only [pollF, hd, hf, List.take_of_length_le hn, List.drop_eq_nil_of_le hn]
  simp [cRound, cReactF, detectF]

theorem clientPhase_eq (pt : V → V → V) (i : Nat) (s : State V) :
    (clientPhase (ra := ra) pt i s).clients = onClient i (cRound pt) s.clients ∧
    (clientPhase (ra := ra) pt i s).host = s.host ∧ (clientPhase (ra := ra) pt i s).hdefer = s.hdefer := by
  unfold clientPhase
  dsimp only
  refine ⟨?_, ?_, ?_⟩
  · rw [client_steps]
    apply onClient_congr
    intro c hc hci
    -- the client as it stands in the states the counts were taken from
    have hmem2 : cReactF (detectF c) ∈ (step ra false pt (step ra false pt s (.detectC i)) (.reactC i)).clients := by
      have e1 : (step ra false pt s (.detectC i)).clients = onClient i detectF s.clients := rfl
      have e2 : ∀ t : State V, (step ra false pt t (.reactC i)).clients = onClient i cReactF t.clients := fun _ => rfl
      rw [e2, e1, onClient_onClient i cReactF detectF _ (fun _ => rfl)]
      unfold onClient
      exact List.mem_map.mpr ⟨c, hc, by simp [hci]⟩
    have hn := le_maxDown _ _ hmem2
    have hmem3 : pollF (maxDown (step ra false pt (step ra false pt s (.detectC i)) (.reactC i))) (cReactF (detectF c)) ∈
        (step ra false pt (step ra false pt (step ra false pt s (.detectC i)) (.reactC i))
          (.pollC i (maxDown (step ra false pt (step ra false pt s (.detectC i)) (.reactC i))))).clients := by
      have e3 : ∀ (t : State V) (n : Nat), (step ra false pt t (.pollC i n)).clients = onClient i (pollF n) t.clients :=
        fun _ _ => rfl
      rw [e3]
      unfold onClient
      exact List.mem_map.mpr ⟨_, hmem2, by simp [cReactF, detectF, hci]⟩
    have hm := le_maxDefer _ _ hmem3
    have hd : (cReactF (detectF c)).down = c.down := rfl
    have hf : (cReactF (detectF c)).defer = c.defer := rfl
    rw [hd] at hn
    apply cRound_of_counts pt _ _ c hn
    simp only [pollF, hd, hf, List.length_append, List.length_take, Nat.min_eq_right hn] at hm
    exact hm
  · rw [(iter_flushC (ra := ra) pt i _ _).2.1]; rfl
  · rw [(iter_flushC (ra := ra) pt i _ _).2.2]; rfl

/-! ## the host's part of a round -/

/-- identity, peer state and closures of every client are what they were (channels may have moved) -/
def Keeps (cs cs' : List (Client V)) : Prop :=
  ∀ c' ∈ cs', ∃ c ∈ cs, c'.id = c.id ∧ c'.p = c.p ∧ c'.defer = c.defer

theorem keeps_refl (cs : List (Client V)) : Keeps cs cs := fun c hc => ⟨c, hc, rfl, rfl, rfl⟩

theorem keeps_trans {a b c : List (Client V)} (h1 : Keeps a b) (h2 : Keeps b c) : Keeps a c := by
  intro x hx
  obtain ⟨y, hy, e1, e2, e3⟩ := h2 x hx
  obtain ⟨z, hz, f1, f2, f3⟩ := h1 y hy
  exact ⟨z, hz, e1.trans f1, e2.trans f2, e3.trans f3⟩

theorem keeps_map (g : Client V → Client V) (cs : List (Client V))
    (hg : ∀ c, (g c).id = c.id ∧ (g c).p = c.p ∧ (g c).defer = c.defer) : Keeps cs (cs.map g) := by
  intro x hx
  obtain ⟨c, hc, rfl⟩ := List.mem_map.mp hx
  exact ⟨c, hc, (hg c).1, (hg c).2.1, (hg c).2.2⟩

theorem keeps_onClient (i : Nat) (g : Client V → Client V) (cs : List (Client V))
    (hg : ∀ c, (g c).id = c.id ∧ (g c).p = c.p ∧ (g c).defer = c.defer) : Keeps cs (onClient i g cs) := by
  unfold onClient
  apply keeps_map
  intro c
  split
  · exact hg c
  · exact ⟨rfl, rfl, rfl⟩

def clearUp (c : Client V) : Client V := { c with up := [] }

theorem findClient_none_absent {i : Nat} {cs : List (Client V)} (h : findClient i cs = none) : ∀ c ∈ cs, c.id ≠ i := by
  intro c hc hci
  unfold findClient at h
  have := List.find?_eq_none.mp h c hc
  simp [hci] at this

/-- one `pollH` that takes everything -/
theorem pollH_all (pt : V → V → V) (i : Nat) (t : State V) :
    (step ra false pt t (.pollH i (maxUp t))).host = t.host ∧
    (step ra false pt t (.pollH i (maxUp t))).clients = onClient i clearUp t.clients ∧
    ((t.hdefer = [] ∧ ∀ c ∈ t.clients, c.up = []) → (step ra false pt t (.pollH i (maxUp t))).hdefer = []) := by
  cases hf : findClient i t.clients with
  | none =>
    have e : step ra false pt t (.pollH i (maxUp t)) = t := by simp only [step, hf]
    rw [e]
    refine ⟨rfl, ?_, fun h => h.1⟩
    unfold onClient
    conv => lhs; rw [← List.map_id t.clients]
    apply List.map_congr_left
    intro c hc
    simp [findClient_none_absent hf c hc]
  | some c0 =>
    have e : step ra false pt t (.pollH i (maxUp t)) =
        { t with hdefer := t.hdefer ++ (c0.up.take (maxUp t)).map (fun v => (i, v)),
                 clients := onClient i (fun c => { c with up := c.up.drop (maxUp t) }) t.clients } := by
      simp only [step, hf]
    rw [e]
    refine ⟨rfl, ?_, ?_⟩
    · apply onClient_congr
      intro c hc _
      simp only [clearUp, List.drop_eq_nil_of_le (le_maxUp t c hc)]
    · intro h
      have := h.2 c0 (findClient_spec hf).1
      simp [h.1, this]

theorem foldl_inv {α β : Type} (g : α → β → α) (P : List β → α → Prop) (l : List β) :
    ∀ (done : List β) (a : α), P done a → (∀ done b a, P done a → P (done ++ [b]) (g a b)) → P (done ++ l) (l.foldl g a) := by
  induction l with
  | nil => intro done a h _; simpa using h
  | cons b l ih =>
    intro done a h hs
    have := ih (done ++ [b]) (g a b) (hs done b a h) hs
    simpa [List.append_assoc] using this

/-- every client's channel is taken, in any order of the ids -/
theorem pollAll (pt : V → V → V) (is : List Nat) (s : State V) :
    let t := is.foldl (fun t i => step ra false pt t (.pollH i (maxUp t))) s
    t.host = s.host ∧ Keeps s.clients t.clients ∧ t.clients.map (·.id) = s.clients.map (·.id) ∧
    (∀ c ∈ t.clients, c.id ∈ is → c.up = []) ∧
    ((∀ c ∈ s.clients, c.down = []) → ∀ c ∈ t.clients, c.down = []) ∧
    ((s.hdefer = [] ∧ ∀ c ∈ s.clients, c.up = []) → t.hdefer = [] ∧ ∀ c ∈ t.clients, c.up = []) := by
  have key := foldl_inv (fun t i => step ra false pt t (.pollH i (maxUp t)))
    (fun done t => t.host = s.host ∧ Keeps s.clients t.clients ∧ t.clients.map (·.id) = s.clients.map (·.id) ∧
      (∀ c ∈ t.clients, c.id ∈ done → c.up = []) ∧
      ((∀ c ∈ s.clients, c.down = []) → ∀ c ∈ t.clients, c.down = []) ∧
      ((s.hdefer = [] ∧ ∀ c ∈ s.clients, c.up = []) → t.hdefer = [] ∧ ∀ c ∈ t.clients, c.up = []))
    is [] s
    ⟨rfl, keeps_refl _, rfl, fun _ _ h => by simp at h, fun h => h, fun h => h⟩
    (by
      intro done i t ⟨h1, h2, h3, h4, h5, h6⟩
      obtain ⟨p1, p2, p3⟩ := pollH_all (ra := ra) pt i t
      refine ⟨p1.trans h1, ?_, ?_, ?_, ?_, ?_⟩
      · rw [p2]; exact keeps_trans h2 (keeps_onClient i clearUp _ (fun _ => ⟨rfl, rfl, rfl⟩))
      · rw [p2, ids_onClient i clearUp _ (fun _ => rfl)]; exact h3
      · rw [p2]
        apply forall_onClient
        · intro c hc hne hin
          simp only [List.mem_append, List.mem_singleton] at hin
          rcases hin with hin | hin
          · exact h4 c hc hin
          · exact absurd hin hne
        · intro c _ _ _; rfl
      · intro hd
        rw [p2]
        apply forall_onClient
        · intro c hc _; exact h5 hd c hc
        · intro c hc _; exact h5 hd c hc
      · intro hq
        obtain ⟨q1, q2⟩ := h6 hq
        refine ⟨p3 ⟨q1, q2⟩, ?_⟩
        rw [p2]
        apply forall_onClient
        · intro c hc _; exact q2 c hc
        · intro c _ _; rfl)
  simpa using key

/-- running every host closure -/
theorem flushAllH (pt : V → V → V) (k : Nat) (t : State V) (hk : t.hdefer.length = k) :
    let u := iter (fun t => step ra false pt t .flushH) k t
    u.hdefer = [] ∧ u.host = flushSeq pt t.host (t.hdefer.map (·.2)) ∧
    (∀ c' ∈ u.clients, ∃ c ∈ t.clients, c'.id = c.id ∧ c'.p = c.p ∧ c'.defer = c.defer ∧ c'.up = c.up) ∧
    u.clients.map (·.id) = t.clients.map (·.id) := by
  induction k generalizing t with
  | zero =>
    have : t.hdefer = [] := List.eq_nil_of_length_eq_zero hk
    refine ⟨by simp [iter, this], by simp [iter, this, flushSeq], fun c hc => ⟨c, hc, rfl, rfl, rfl, rfl⟩, rfl⟩
  | succ k ih =>
    cases hd : t.hdefer with
    | nil => rw [hd] at hk; cases hk
    | cons m rest =>
      obtain ⟨i, v⟩ := m
      -- one flush
      have hone : (step ra false pt t .flushH).hdefer = rest ∧ (step ra false pt t .flushH).host = (apply false pt t.host v).1 ∧
          (∀ c' ∈ (step ra false pt t .flushH).clients, ∃ c ∈ t.clients, c'.id = c.id ∧ c'.p = c.p ∧ c'.defer = c.defer ∧ c'.up = c.up) ∧
          (step ra false pt t .flushH).clients.map (·.id) = t.clients.map (·.id) := by
        simp only [step, hd]
        split
        · refine ⟨rfl, rfl, ?_, ?_⟩
          · intro c' hc'
            obtain ⟨c, hc, rfl⟩ := List.mem_map.mp hc'
            refine ⟨c, hc, ?_⟩
            split <;> exact ⟨rfl, rfl, rfl, rfl⟩
          · exact ids_map _ _ (fun c => by split <;> rfl)
        · exact ⟨rfl, rfl, fun c hc => ⟨c, hc, rfl, rfl, rfl, rfl⟩, rfl⟩
      obtain ⟨o1, o2, o3, o4⟩ := hone
      have hk' : (step ra false pt t .flushH).hdefer.length = k := by
        rw [o1]; rw [hd] at hk; simpa using hk
      obtain ⟨i1, i2, i3, i4⟩ := ih (step ra false pt t .flushH) hk'
      simp only [iter]
      refine ⟨i1, ?_, ?_, i4.trans o4⟩
      · rw [i2, o2, o1]
        simp [flushSeq]
      · intro c' hc'
        obtain ⟨c, hc, e1, e2, e3, e4⟩ := i3 c' hc'
        obtain ⟨d, hdm, f1, f2, f3, f4⟩ := o3 c hc
        exact ⟨d, hdm, e1.trans f1, e2.trans f2, e3.trans f3, e4.trans f4⟩

def hostPhase (pt : V → V → V) (s : State V) : State V :=
  let s2 := step ra false pt (step ra false pt s .detectH) .reactH
  let s3 := (s2.clients.map (·.id)).foldl (fun t i => step ra false pt t (.pollH i (maxUp t))) s2
  iter (fun t => step ra false pt t .flushH) s3.hdefer.length s3

theorem hostPhase_post (pt : V → V → V) (s : State V) :
    (hostPhase (ra := ra) pt s).host.queue = [] ∧ (hostPhase (ra := ra) pt s).hdefer = [] ∧
    ((hostPhase (ra := ra) pt s).host.dirty = true → (hostPhase (ra := ra) pt s).host.token = true) ∧
    (∀ c ∈ (hostPhase (ra := ra) pt s).clients, c.up = []) ∧
    (hostPhase (ra := ra) pt s).clients.map (·.id) = s.clients.map (·.id) ∧
    Keeps s.clients (hostPhase (ra := ra) pt s).clients := by
  unfold hostPhase
  dsimp only
  -- the two single steps
  have e2h : (step ra false pt (step ra false pt s .detectH) .reactH).host = { (detect s.host) with queue := [] } := rfl
  have e2c : (step ra false pt (step ra false pt s .detectH) .reactH).clients =
      s.clients.map (fun c => { c with down := c.down ++ (detect s.host).queue }) := rfl
  obtain ⟨p1, p2, p3, p4, _, _⟩ := pollAll (ra := ra) pt
    ((step ra false pt (step ra false pt s .detectH) .reactH).clients.map (·.id))
    (step ra false pt (step ra false pt s .detectH) .reactH)
  obtain ⟨f1, f2, f3, f4⟩ := flushAllH (ra := ra) pt _ _ rfl
  refine ⟨?_, f1, ?_, ?_, ?_, ?_⟩
  · rw [f2, (flushSeq_keeps pt _ _).1, p1, e2h]
  · rw [f2]
    apply (flushSeq_keeps pt _ _).2
    rw [p1, e2h]
    intro h
    simp only [detect_post] at h
    cases h
  · intro c' hc'
    obtain ⟨c, hc, e1, _, _, e4⟩ := f3 c' hc'
    rw [e4]
    apply p4 c hc
    rw [← p3]
    exact List.mem_map.mpr ⟨c, hc, rfl⟩
  · rw [f4, p3, e2c]
    exact ids_map _ _ (fun _ => rfl)
  · have k1 : Keeps s.clients (step ra false pt (step ra false pt s .detectH) .reactH).clients := by
      rw [e2c]; exact keeps_map _ _ (fun _ => ⟨rfl, rfl, rfl⟩)
    refine keeps_trans (keeps_trans k1 p2) ?_
    intro c' hc'
    obtain ⟨c, hc, e1, e2, e3, _⟩ := f3 c' hc'
    exact ⟨c, hc, e1, e2, e3⟩

/-- nothing to send, nothing to receive: the host's part of the round only clears its change flag -/
theorem hostPhase_quiet (pt : V → V → V) (s : State V) (h1 : s.host.dirty = true → s.host.token = true)
    (h2 : s.host.queue = []) (h3 : s.hdefer = []) (h4 : ∀ c ∈ s.clients, c.up = [] ∧ c.down = []) :
    (hostPhase (ra := ra) pt s).host.dirty = false ∧ ∀ c ∈ (hostPhase (ra := ra) pt s).clients, c.down = [] := by
  unfold hostPhase
  dsimp only
  have hq : (detect s.host).queue = [] := by rw [detect_covered s.host h1, h2]
  have e2h : (step ra false pt (step ra false pt s .detectH) .reactH).host = { (detect s.host) with queue := [] } := rfl
  have e2c : (step ra false pt (step ra false pt s .detectH) .reactH).clients =
      s.clients.map (fun c => { c with down := c.down ++ (detect s.host).queue }) := rfl
  have e2d : (step ra false pt (step ra false pt s .detectH) .reactH).hdefer = s.hdefer := rfl
  have hdown : ∀ c ∈ (step ra false pt (step ra false pt s .detectH) .reactH).clients, c.down = [] := by
    rw [e2c]
    apply forall_map
    intro c hc
    simp [hq, (h4 c hc).2]
  have hup : ∀ c ∈ (step ra false pt (step ra false pt s .detectH) .reactH).clients, c.up = [] := by
    rw [e2c]
    apply forall_map
    intro c hc
    exact (h4 c hc).1
  obtain ⟨p1, _, _, _, p5, p6⟩ := pollAll (ra := ra) pt
    ((step ra false pt (step ra false pt s .detectH) .reactH).clients.map (·.id))
    (step ra false pt (step ra false pt s .detectH) .reactH)
  obtain ⟨q1, _⟩ := p6 ⟨by rw [e2d, h3], hup⟩
  rw [q1]
  simp only [List.length_nil, iter]
  exact ⟨by rw [p1, e2h]; exact detect_post s.host, p5 hdown⟩

/-! ## a fair round, and three of them -/

/-- the host's part, then every client's part (the ids are those of the state the round starts from) -/
def round (pt : V → V → V) (s : State V) : State V :=
  (s.clients.map (·.id)).foldl (fun t i => clientPhase (ra := ra) pt i t) (hostPhase (ra := ra) pt s)

theorem clientsFold (pt : V → V → V) (is : List Nat) (t : State V) :
    (is.foldl (fun t i => clientPhase (ra := ra) pt i t) t).host = t.host ∧
    (is.foldl (fun t i => clientPhase (ra := ra) pt i t) t).hdefer = t.hdefer ∧
    (is.foldl (fun t i => clientPhase (ra := ra) pt i t) t).clients = is.foldl (fun cs i => onClient i (cRound pt) cs) t.clients := by
  induction is generalizing t with
  | nil => exact ⟨rfl, rfl, rfl⟩
  | cons i is ih =>
    obtain ⟨h1, h2, h3⟩ := ih (clientPhase (ra := ra) pt i t)
    obtain ⟨e1, e2, e3⟩ := clientPhase_eq (ra := ra) pt i t
    simp only [List.foldl_cons]
    exact ⟨h1.trans e2, h2.trans e3, by rw [h3, e1]⟩

theorem ids_foldOn (F : Client V → Client V) (hid : ∀ c, (F c).id = c.id) (is : List Nat) (cs : List (Client V)) :
    (is.foldl (fun cs i => onClient i F cs) cs).map (·.id) = cs.map (·.id) := by
  induction is generalizing cs with
  | nil => rfl
  | cons i is ih => simp only [List.foldl_cons]; rw [ih, ids_onClient i F cs hid]

/-- every client is visited; `Post` is what a visit establishes from `Pre` and keeps afterwards -/
theorem foldOn_post (F : Client V → Client V) (Pre Post : Client V → Prop) (hid : ∀ c, (F c).id = c.id)
    (hF : ∀ c, Pre c → Post (F c)) (hS : ∀ c, Post c → Post (F c)) (cs : List (Client V)) (hpre : ∀ c ∈ cs, Pre c) :
    ∀ c ∈ (cs.map (·.id)).foldl (fun cs i => onClient i F cs) cs, Post c := by
  have key := foldl_inv (fun cs i => onClient i F cs)
    (fun done cs' => ∀ c ∈ cs', (Pre c ∨ Post c) ∧ (c.id ∈ done → Post c)) (cs.map (·.id)) [] cs
    (fun c hc => ⟨Or.inl (hpre c hc), fun h => by simp at h⟩)
    (by
      intro done i cs' h
      apply forall_onClient
      · intro c hc hne
        refine ⟨(h c hc).1, fun hin => ?_⟩
        simp only [List.mem_append, List.mem_singleton] at hin
        rcases hin with hin | hin
        · exact (h c hc).2 hin
        · exact absurd hin hne
      · intro c hc _
        have hp : Post (F c) := by
          rcases (h c hc).1 with hp | hp
          · exact hF c hp
          · exact hS c hp
        exact ⟨Or.inr hp, fun _ => hp⟩)
  intro c hc
  simp only [List.nil_append] at key
  apply (key c hc).2
  have := ids_foldOn F hid (cs.map (·.id)) cs
  rw [← this]
  exact List.mem_map.mpr ⟨c, hc, rfl⟩

/-- after its visit a client has nothing queued, polled or pending, and every change it holds is covered -/
def Post1 (c : Client V) : Prop :=
  c.p.queue = [] ∧ c.down = [] ∧ c.defer = [] ∧ (c.p.dirty = true → c.p.token = true)

theorem cRound_post1 (pt : V → V → V) (c : Client V) : Post1 (cRound pt c) := by
  obtain ⟨k1, k2⟩ := flushSeq_keeps pt (c.defer ++ c.down) { (detect c.p) with queue := [] }
  refine ⟨k1, rfl, rfl, ?_⟩
  apply k2
  intro h
  simp only [detect_post] at h
  cases h

theorem cRound_up (pt : V → V → V) (c : Client V) (hq : c.p.queue = []) (hc : c.p.dirty = true → c.p.token = true)
    (hu : c.up = []) : (cRound pt c).up = [] := by
  simp only [cRound, hu, detect_covered c.p hc, hq, List.append_nil]

theorem cRound_idle (pt : V → V → V) (c : Client V) (hc : c.p.dirty = true → c.p.token = true)
    (hd : c.defer = []) (hw : c.down = []) : (cRound pt c).p.dirty = false := by
  simp only [cRound, hd, hw, List.append_nil, flushSeq, List.foldl_nil]
  exact detect_post c.p

/-- **three fair rounds without application writes end in quiescence — from any state whatsoever.** -/
theorem three_rounds_quiescent (pt : V → V → V) (s : State V) :
    Quiescent (round (ra := ra) pt (round (ra := ra) pt (round (ra := ra) pt s))) := by
  -- what one round gives from an arbitrary state
  have r1 : ∀ s : State V, (round (ra := ra) pt s).host.queue = [] ∧ (round (ra := ra) pt s).hdefer = [] ∧
      ((round (ra := ra) pt s).host.dirty = true → (round (ra := ra) pt s).host.token = true) ∧
      ∀ c ∈ (round (ra := ra) pt s).clients, Post1 c := by
    intro s
    obtain ⟨a1, a2, a3, _, a5, _⟩ := hostPhase_post (ra := ra) pt s
    obtain ⟨f1, f2, f3⟩ := clientsFold (ra := ra) pt (s.clients.map (·.id)) (hostPhase (ra := ra) pt s)
    unfold round
    refine ⟨by rw [f1]; exact a1, by rw [f2]; exact a2, by rw [f1]; exact a3, ?_⟩
    rw [f3, ← a5]
    exact foldOn_post (cRound pt) (fun _ => True) Post1 (cRound_id pt) (fun c _ => cRound_post1 pt c)
      (fun c _ => cRound_post1 pt c) _ (fun _ _ => trivial)
  -- a second round: the channels towards the host are empty as well
  have r2 : ∀ s : State V, (∀ c ∈ s.clients, Post1 c) →
      ∀ c ∈ (round (ra := ra) pt s).clients, Post1 c ∧ c.up = [] := by
    intro s hs
    obtain ⟨_, _, _, a4, a5, a6⟩ := hostPhase_post (ra := ra) pt s
    obtain ⟨_, _, f3⟩ := clientsFold (ra := ra) pt (s.clients.map (·.id)) (hostPhase (ra := ra) pt s)
    unfold round
    rw [f3, ← a5]
    apply foldOn_post (cRound pt)
      (fun c => c.p.queue = [] ∧ c.defer = [] ∧ (c.p.dirty = true → c.p.token = true) ∧ c.up = [])
      (fun c => Post1 c ∧ c.up = []) (cRound_id pt)
    · intro c ⟨h1, _, h3, h4⟩
      exact ⟨cRound_post1 pt c, cRound_up pt c h1 h3 h4⟩
    · intro c ⟨⟨h1, _, _, h4⟩, h5⟩
      exact ⟨cRound_post1 pt c, cRound_up pt c h1 h4 h5⟩
    · intro c' hc'
      obtain ⟨c, hc, _, e2, e3⟩ := a6 c' hc'
      obtain ⟨p1, _, p3, p4⟩ := hs c hc
      exact ⟨by rw [e2]; exact p1, by rw [e3]; exact p3, by rw [e2]; exact p4, a4 c' hc'⟩
  -- a third round: nothing moves any more, the change flags are cleared
  have r3 : ∀ s : State V, s.host.queue = [] → s.hdefer = [] → (s.host.dirty = true → s.host.token = true) →
      (∀ c ∈ s.clients, Post1 c ∧ c.up = []) → Quiescent (round (ra := ra) pt s) := by
    intro s g1 g2 g3 hs
    obtain ⟨a1, a2, _, a4, a5, a6⟩ := hostPhase_post (ra := ra) pt s
    obtain ⟨q1, q2⟩ := hostPhase_quiet (ra := ra) pt s g3 g1 g2 (fun c hc => ⟨(hs c hc).2, (hs c hc).1.2.1⟩)
    obtain ⟨f1, f2, f3⟩ := clientsFold (ra := ra) pt (s.clients.map (·.id)) (hostPhase (ra := ra) pt s)
    unfold round
    refine ⟨by rw [f1]; exact q1, by rw [f1]; exact a1, by rw [f2]; exact a2, ?_⟩
    rw [f3, ← a5]
    apply foldOn_post (cRound pt)
      (fun c => c.p.queue = [] ∧ c.defer = [] ∧ (c.p.dirty = true → c.p.token = true) ∧ c.up = [] ∧ c.down = [])
      (fun c => c.p.dirty = false ∧ c.p.queue = [] ∧ c.defer = [] ∧ c.up = [] ∧ c.down = []) (cRound_id pt)
    · intro c ⟨h1, h2, h3, h4, h5⟩
      exact ⟨cRound_idle pt c h3 h2 h5, (cRound_post1 pt c).1, rfl, cRound_up pt c h1 h3 h4, rfl⟩
    · intro c ⟨h0, h1, h2, h4, h5⟩
      have h3 : c.p.dirty = true → c.p.token = true := by intro h; rw [h0] at h; cases h
      exact ⟨cRound_idle pt c h3 h2 h5, (cRound_post1 pt c).1, rfl, cRound_up pt c h1 h3 h4, rfl⟩
    · intro c' hc'
      obtain ⟨c, hc, _, e2, e3⟩ := a6 c' hc'
      obtain ⟨⟨p1, _, p3, p4⟩, _⟩ := hs c hc
      exact ⟨by rw [e2]; exact p1, by rw [e3]; exact p3, by rw [e2]; exact p4, a4 c' hc', q2 c' hc'⟩
  obtain ⟨b1, b2, b3, b4⟩ := r1 s
  obtain ⟨c1, c2, c3, _⟩ := r1 (round (ra := ra) pt s)
  exact r3 _ c1 c2 c3 (r2 _ b4)

/-! ## a round is a schedule of the model's own actions -/

/-- reachable from `s` by a schedule without application writes -/
def Quiet (pt : V → V → V) (s t : State V) : Prop :=
  ∃ as : List (Act V), (∀ a ∈ as, isWrite a = false) ∧ t = run ra false pt s as

theorem quiet_refl (pt : V → V → V) (s : State V) : Quiet (ra := ra) pt s s := ⟨[], fun _ h => by simp at h, rfl⟩

theorem quiet_trans (pt : V → V → V) {a b c : State V} (h1 : Quiet (ra := ra) pt a b) (h2 : Quiet (ra := ra) pt b c) :
    Quiet (ra := ra) pt a c := by
  obtain ⟨l1, w1, e1⟩ := h1
  obtain ⟨l2, w2, e2⟩ := h2
  refine ⟨l1 ++ l2, ?_, ?_⟩
  · intro x hx
    rcases List.mem_append.mp hx with h | h
    · exact w1 x h
    · exact w2 x h
  · rw [e2, e1]; simp [run, List.foldl_append]

theorem quiet_step (pt : V → V → V) (s : State V) (a : Act V) (h : isWrite a = false) :
    Quiet (ra := ra) pt s (step ra false pt s a) :=
  ⟨[a], fun x hx => by simp only [List.mem_singleton] at hx; rw [hx]; exact h, rfl⟩

theorem quiet_iter (pt : V → V → V) (a : Act V) (h : isWrite a = false) (n : Nat) (s : State V) :
    Quiet (ra := ra) pt s (iter (fun t => step ra false pt t a) n s) := by
  induction n generalizing s with
  | zero => exact quiet_refl pt s
  | succ n ih => exact quiet_trans pt (quiet_step pt s a h) (ih _)

theorem quiet_foldl {β : Type} (pt : V → V → V) (g : State V → β → State V)
    (hg : ∀ t b, Quiet (ra := ra) pt t (g t b)) (l : List β) (s : State V) : Quiet (ra := ra) pt s (l.foldl g s) := by
  induction l generalizing s with
  | nil => exact quiet_refl pt s
  | cons b l ih => exact quiet_trans pt (hg s b) (ih _)

theorem quiet_clientPhase (pt : V → V → V) (i : Nat) (s : State V) : Quiet (ra := ra) pt s (clientPhase (ra := ra) pt i s) := by
  unfold clientPhase
  dsimp only
  exact quiet_trans pt (quiet_trans pt (quiet_trans pt (quiet_step pt _ _ rfl) (quiet_step pt _ _ rfl)) (quiet_step pt _ _ rfl))
    (quiet_iter pt _ rfl _ _)

theorem quiet_hostPhase (pt : V → V → V) (s : State V) : Quiet (ra := ra) pt s (hostPhase (ra := ra) pt s) := by
  unfold hostPhase
  dsimp only
  exact quiet_trans pt (quiet_trans pt (quiet_trans pt (quiet_step pt _ _ rfl) (quiet_step pt _ _ rfl))
    (quiet_foldl pt _ (fun t i => quiet_step pt t _ rfl) _ _)) (quiet_iter pt _ rfl _ _)

theorem quiet_round (pt : V → V → V) (s : State V) : Quiet (ra := ra) pt s (round (ra := ra) pt s) := by
  unfold round
  exact quiet_trans pt (quiet_hostPhase pt s) (quiet_foldl pt _ (fun t i => quiet_clientPhase pt i t) _ _)

/-- **bounded time to quiescence.** From any state there is a schedule without application writes — three fair rounds —
that ends in a quiescent state; and by `comp_quiet` no write-free schedule sends more than the potential still owes. -/
theorem quiescence_reached (pt : V → V → V) (s : State V) :
    ∃ as : List (Act V), (∀ a ∈ as, isWrite a = false) ∧ Quiescent (run ra false pt s as) := by
  obtain ⟨as, hw, he⟩ := quiet_trans pt (quiet_trans pt (quiet_round (ra := ra) pt s) (quiet_round pt _)) (quiet_round pt _)
  exact ⟨as, hw, he ▸ three_rounds_quiescent pt s⟩

/-! ## "once traffic has drained" is not a hypothesis one has to hope for -/

theorem lastWritten_quiet (x : Option V) (as more : List (Act V)) (hm : ∀ a ∈ more, isWrite a = false) :
    lastWritten x (as ++ more) = lastWritten x as := by
  unfold lastWritten
  rw [List.foldl_append]
  generalize as.foldl writeOf x = y
  induction more generalizing y with
  | nil => rfl
  | cons a more ih =>
    have ha : writeOf y a = y := by
      have := hm a (by simp)
      cases a <;> simp_all [writeOf, isWrite]
    simp only [List.foldl_cons, ha]
    exact ih (fun b hb => hm b (by simp [hb])) y

theorem hostWrites_of_quiet (a : Act V) (h : isWrite a = false) : HostWrites a := by
  cases a <;> simp_all [HostWrites, isWrite]

theorem clientWrites_of_quiet (w : Nat) (a : Act V) (h : isWrite a = false) : ClientWrites w a := by
  cases a <;> simp_all [ClientWrites, isWrite]

/-- **C02, host-writer epoch, without assuming the drain**: after any interleaving in which only the host writes there
is a write-free continuation — three fair rounds — after which every peer holds the most recent write. -/
theorem host_epoch_total (x : Option V) (s : State V) (as : List (Act V)) (hc : Clean x s)
    (ha : ∀ a ∈ as, HostWrites a) :
    ∃ more : List (Act V), (∀ a ∈ more, isWrite a = false) ∧
      Clean (lastWritten x as) (run ra false replace (run ra false replace s as) more) := by
  obtain ⟨more, hw, hq⟩ := quiescence_reached (ra := ra) replace (run ra false replace s as)
  refine ⟨more, hw, ?_⟩
  have e : run ra false replace (run ra false replace s as) more = run ra false replace s (as ++ more) := by
    simp [run, List.foldl_append]
  rw [e] at hq ⊢
  have := host_epoch_converges (ra := ra) x s (as ++ more) hc
    (fun a h => by
      rcases List.mem_append.mp h with h | h
      · exact ha a h
      · exact hostWrites_of_quiet a (hw a h)) hq
  rwa [lastWritten_quiet x as more hw] at this

/-- **C02, client-writer epoch, without assuming the drain** -/
theorem client_epoch_total (w : Nat) (x : Option V) (s : State V) (as : List (Act V))
    (hn : (s.clients.map (·.id)).Nodup) (hw : ∃ c ∈ s.clients, c.id = w) (hc : Clean x s)
    (ha : ∀ a ∈ as, ClientWrites w a) :
    ∃ more : List (Act V), (∀ a ∈ more, isWrite a = false) ∧
      Clean (lastWritten x as) (run ra false replace (run ra false replace s as) more) := by
  obtain ⟨more, hq0, hq⟩ := quiescence_reached (ra := ra) replace (run ra false replace s as)
  refine ⟨more, hq0, ?_⟩
  have e : run ra false replace (run ra false replace s as) more = run ra false replace s (as ++ more) := by
    simp [run, List.foldl_append]
  rw [e] at hq ⊢
  have := client_epoch_converges (ra := ra) w x s (as ++ more) hn hw hc
    (fun a h => by
      rcases List.mem_append.mp h with h | h
      · exact ha a h
      · exact clientWrites_of_quiet w a (hq0 a h)) hq
  rwa [lastWritten_quiet x as more hq0] at this

end Comp
end BevySync
