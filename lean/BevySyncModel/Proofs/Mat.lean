import BevySyncModel.Slice.Mat
import BevySyncModel.Proofs.Comp
/-! Invariants of the material slice: a single-writer epoch converges on every schedule. -/
namespace BevySync
namespace Mat
open Comp (lastOr lastOr_append lastOr_snoc lastOr_cons lastOr_nil)

theorem mem_onClient {i : Nat} {f : Client → Client} {cs : List Client} {c' : Client}
    (h : c' ∈ onClient i f cs) : ∃ c ∈ cs, c' = if c.id = i then f c else c := by
  unfold onClient at h
  obtain ⟨c, hc, rfl⟩ := List.mem_map.mp h
  exact ⟨c, hc, rfl⟩

theorem forall_onClient {P : Client → Prop} (i : Nat) (f : Client → Client) (cs : List Client)
    (h : ∀ c ∈ cs, c.id ≠ i → P c) (hf : ∀ c ∈ cs, c.id = i → P (f c)) : ∀ c' ∈ onClient i f cs, P c' := by
  intro c' hc'
  obtain ⟨c, hc, rfl⟩ := mem_onClient hc'
  by_cases hi : c.id = i
  · rw [if_pos hi]; exact hf c hc hi
  · rw [if_neg hi]; exact h c hc hi

theorem forall_map {P : Client → Prop} (g : Client → Client) (cs : List Client)
    (h : ∀ c ∈ cs, P (g c)) : ∀ c' ∈ cs.map g, P c' := by
  intro c' hc'
  obtain ⟨c, hc, rfl⟩ := List.mem_map.mp hc'
  exact h c hc

theorem findClient_spec {i : Nat} {cs : List Client} {c : Client} (h : findClient i cs = some c) :
    c ∈ cs ∧ c.id = i := by
  unfold findClient at h
  exact ⟨List.mem_of_find?_eq_some h, by simpa using List.find?_some h⟩

theorem findClient_of_mem {w : Nat} {cs : List Client} {cw : Client} (hn : (cs.map (·.id)).Nodup)
    (hm : cw ∈ cs) (hw : cw.id = w) : findClient w cs = some cw := by
  induction cs with
  | nil => cases hm
  | cons a cs ih =>
    simp only [List.map_cons, List.nodup_cons] at hn
    unfold findClient
    rw [List.find?_cons]
    rcases List.mem_cons.mp hm with rfl | hm'
    · simp [hw]
    · have hne : a.id ≠ w := by
        intro h
        apply hn.1
        rw [h, ← hw]
        exact List.mem_map.mpr ⟨cw, hm', rfl⟩
      simp only [hne, decide_false]
      exact ih hn.2 hm'

theorem react_reader (p : Peer) (h : p.tokens = p.events) :
    (react p).2 = none ∧ (react p).1.tokens = (react p).1.events ∧ (react p).1.content = p.content := by
  unfold react
  by_cases h0 : p.events = 0
  · simp [h0, h]
  · have : p.tokens > 0 := by omega
    simp [h0, this]; omega

theorem react_writer (p : Peer) (v : Nat) (ht : p.tokens = 0) (he : p.events ≠ 0) (hc : p.content = some v) :
    react p = ({ p with events := p.events - 1 }, some v) := by
  simp [react, he, ht, hc]

theorem react_idle (p : Peer) (he : p.events = 0) : react p = (p, none) := by simp [react, he]

/-! ## host-writer epoch -/

def HC (h : Peer) (c : Client) : Prop :=
  c.up = [] ∧ c.p.tokens = c.p.events ∧ (h.events > 0 ∨ lastOr c.p.content (c.defer ++ c.down) = h.content)

def HM (s : State) : Prop :=
  s.host.tokens = 0 ∧ s.hdefer = [] ∧ s.host.content ≠ none ∧ ∀ c ∈ s.clients, HC s.host c

def HostWrites : Act → Prop
  | .publishC _ _ => False
  | _ => True

theorem hm_step (s : State) (a : Act) (hi : HM s) (ha : HostWrites a) : HM (step true s a) := by
  obtain ⟨ht, hd, hne, hc⟩ := hi
  cases a with
  | publishH v =>
    refine ⟨ht, hd, by simp [step, publish], fun c hcm => ?_⟩
    obtain ⟨a1, a2, _⟩ := hc c hcm
    exact ⟨a1, a2, Or.inl (by simp [step, publish])⟩
  | reactH =>
    by_cases h0 : s.host.events = 0
    · simp only [step, react_idle s.host h0]
      exact ⟨ht, hd, hne, hc⟩
    · obtain ⟨v, hv⟩ : ∃ v, s.host.content = some v := by
        cases h : s.host.content with
        | none => exact absurd h hne
        | some v => exact ⟨v, rfl⟩
      simp only [step, react_writer s.host v ht h0 hv]
      refine ⟨ht, hd, hne, ?_⟩
      apply forall_map
      intro c hcm
      obtain ⟨a1, a2, _⟩ := hc c hcm
      refine ⟨a1, a2, Or.inr ?_⟩
      simp only [← List.append_assoc, lastOr_snoc, hv]
  | pollH i =>
    cases hf : findClient i s.clients with
    | none => simp only [step, hf]; exact ⟨ht, hd, hne, hc⟩
    | some c =>
      have hup : c.up = [] := (hc c (findClient_spec hf).1).1
      simp only [step, hf, hup]
      exact ⟨ht, hd, hne, hc⟩
  | flushH => simp only [step, hd]; exact ⟨ht, hd, hne, hc⟩
  | publishC i v => exact absurd ha (by simp [HostWrites])
  | reactC i =>
    refine ⟨ht, hd, hne, ?_⟩
    simp only [step]
    apply forall_onClient
    · intro c hcm _; exact hc c hcm
    · intro c hcm _
      obtain ⟨a1, a2, a3⟩ := hc c hcm
      obtain ⟨r1, r2, r3⟩ := react_reader c.p a2
      simp only [cReact, r1]
      refine ⟨a1, r2, ?_⟩
      rw [r3]; exact a3
  | pollC i =>
    refine ⟨ht, hd, hne, ?_⟩
    simp only [step]
    apply forall_onClient
    · intro c hcm _; exact hc c hcm
    · intro c hcm _
      obtain ⟨a1, a2, a3⟩ := hc c hcm
      cases hdn : c.down with
      | nil => simp only [cPoll, hdn]; exact ⟨a1, a2, a3⟩
      | cons v rest =>
        simp only [cPoll, hdn]
        refine ⟨a1, a2, ?_⟩
        rw [hdn] at a3
        simpa [List.append_assoc] using a3
  | flushC i =>
    refine ⟨ht, hd, hne, ?_⟩
    simp only [step]
    apply forall_onClient
    · intro c hcm _; exact hc c hcm
    · intro c hcm _
      obtain ⟨a1, a2, a3⟩ := hc c hcm
      cases hdf : c.defer with
      | nil => simp only [cFlush, hdf]; exact ⟨a1, a2, a3⟩
      | cons v rest =>
        simp only [cFlush, hdf, apply, if_true]
        refine ⟨a1, by simp only; omega, ?_⟩
        rw [hdf] at a3
        simpa using a3

theorem hm_run (s : State) (as : List Act) (hi : HM s) (ha : ∀ a ∈ as, HostWrites a) : HM (run true s as) := by
  induction as generalizing s with
  | nil => exact hi
  | cons a as ih => exact ih _ (hm_step s a hi (ha a (by simp))) (fun b hb => ha b (by simp [hb]))

theorem hm_start (x : Option Nat) (s : State) (v : Nat) (hs : Settled x s) : HM (step true s (.publishH v)) := by
  obtain ⟨_, _, h3, h4, hc⟩ := hs
  refine ⟨h3, h4, by simp [step, publish], fun c hcm => ?_⟩
  obtain ⟨_, c2, c3, _, c5, _⟩ := hc c hcm
  exact ⟨c5, by omega, Or.inl (by simp [step, publish])⟩

theorem hm_settled (s : State) (hi : HM s) (hq : Quiescent s) : Settled s.host.content s := by
  obtain ⟨ht, hd, hne, hc⟩ := hi
  obtain ⟨q1, q2, qc⟩ := hq
  refine ⟨rfl, q1, ht, hd, fun c hcm => ?_⟩
  obtain ⟨a1, a2, a3⟩ := hc c hcm
  obtain ⟨c1, c2, c3, c4⟩ := qc c hcm
  refine ⟨?_, c1, by omega, c2, c3, c4⟩
  rcases a3 with h | h
  · omega
  · simpa [c2, c4] using h

/-! ## client-writer epoch -/

def CW (host : Peer) (hdefer : List (Nat × Nat)) (cw : Client) : Prop :=
  cw.p.tokens = 0 ∧ cw.defer = [] ∧ cw.down = [] ∧ cw.p.content ≠ none ∧
  (cw.p.events > 0 ∨ lastOr host.content (hdefer.map (·.2) ++ cw.up) = cw.p.content)

def CR (hdefer : List (Nat × Nat)) (cw c : Client) : Prop :=
  c.up = [] ∧ c.p.tokens = c.p.events ∧
  (cw.p.events > 0 ∨ lastOr c.p.content (c.defer ++ c.down ++ hdefer.map (·.2) ++ cw.up) = cw.p.content)

def CM (w : Nat) (s : State) : Prop :=
  s.host.tokens = s.host.events ∧ (∀ m ∈ s.hdefer, m.1 = w) ∧
  ∀ cw ∈ s.clients, cw.id = w → CW s.host s.hdefer cw ∧ ∀ c ∈ s.clients, c.id ≠ w → CR s.hdefer cw c

def ClientWrites (w : Nat) : Act → Prop
  | .publishH _ => False
  | .publishC i _ => i = w
  | _ => True

theorem cm_map {w : Nat} {g : Client → Client} (hid : ∀ c, (g c).id = c.id) {cs : List Client}
    {P P' : Client → Prop} {Q Q' : Client → Client → Prop}
    (h : ∀ cw ∈ cs, cw.id = w → P cw ∧ ∀ c ∈ cs, c.id ≠ w → Q cw c)
    (hP : ∀ cw ∈ cs, cw.id = w → P cw → P' (g cw))
    (hQ : ∀ cw ∈ cs, ∀ c ∈ cs, cw.id = w → c.id ≠ w → P cw → Q cw c → Q' (g cw) (g c)) :
    ∀ cw' ∈ cs.map g, cw'.id = w → P' cw' ∧ ∀ c' ∈ cs.map g, c'.id ≠ w → Q' cw' c' := by
  intro cw' hcw' hw'
  obtain ⟨cw, hcw, rfl⟩ := List.mem_map.mp hcw'
  rw [hid] at hw'
  obtain ⟨hp, hq⟩ := h cw hcw hw'
  refine ⟨hP cw hcw hw' hp, fun c' hc' hne' => ?_⟩
  obtain ⟨c, hc, rfl⟩ := List.mem_map.mp hc'
  rw [hid] at hne'
  exact hQ cw hcw c hc hw' hne' hp (hq c hc hne')

theorem cm_step (w : Nat) (s : State) (a : Act) (hn : (s.clients.map (·.id)).Nodup)
    (hp : ∃ cw ∈ s.clients, cw.id = w) (hi : CM w s) (ha : ClientWrites w a) : CM w (step true s a) := by
  obtain ⟨ht, hsd, hc⟩ := hi
  cases a with
  | publishH v => exact absurd ha (by simp [ClientWrites])
  | reactH =>
    obtain ⟨r1, r2, r3⟩ := react_reader s.host ht
    simp only [step, r1]
    refine ⟨r2, hsd, fun cw hcw hw => ?_⟩
    obtain ⟨⟨c1, c2, c3, c4, c5⟩, hr⟩ := hc cw hcw hw
    exact ⟨⟨c1, c2, c3, c4, by rw [r3]; exact c5⟩, hr⟩
  | pollH i =>
    cases hf : findClient i s.clients with
    | none => simp only [step, hf]; exact ⟨ht, hsd, hc⟩
    | some ci =>
      obtain ⟨hcim, hcid⟩ := findClient_spec hf
      cases hup : ci.up with
      | nil => simp only [step, hf, hup]; exact ⟨ht, hsd, hc⟩
      | cons v rest =>
        obtain ⟨cw0, hcw0, hw0'⟩ := hp
        have hiw : ci.id = w := by
          by_cases h : ci.id = w
          · exact h
          · have := ((hc cw0 hcw0 hw0').2 ci hcim h).1
            rw [hup] at this; cases this
        have hi' : i = w := by rw [← hcid]; exact hiw
        simp only [step, hf, hup]
        refine ⟨ht, ?_, ?_⟩
        · intro m hm
          simp only [List.mem_append, List.mem_singleton] at hm
          rcases hm with hm | hm
          · exact hsd m hm
          · rw [hm]; exact hi'
        · unfold onClient
          refine cm_map (P := CW s.host s.hdefer) (Q := CR s.hdefer) ?_ hc ?_ ?_
          · intro c; split <;> rfl
          · intro cw hcw hw ⟨c1, c2, c3, c4, c5⟩
            have hcweq : cw = ci := by
              have h1 := findClient_of_mem hn hcim hiw
              have h2 := findClient_of_mem hn hcw hw
              rw [h1] at h2; exact (Option.some.inj h2).symm
            rw [if_pos (by rw [hw, hi'])]
            refine ⟨c1, c2, c3, c4, ?_⟩
            rcases c5 with c5 | c5
            · exact Or.inl c5
            · right
              have hupw : cw.up = v :: rest := by rw [hcweq]; exact hup
              rw [hupw] at c5
              simpa [List.append_assoc] using c5
          · intro cw hcw c hcm hw hne _ ⟨d1, d2, d3⟩
            have hcweq : cw = ci := by
              have h1 := findClient_of_mem hn hcim hiw
              have h2 := findClient_of_mem hn hcw hw
              rw [h1] at h2; exact (Option.some.inj h2).symm
            rw [if_pos (by rw [hw, hi']), if_neg (by rw [hi']; exact hne)]
            refine ⟨d1, d2, ?_⟩
            rcases d3 with d3 | d3
            · exact Or.inl d3
            · right
              have hupw : cw.up = v :: rest := by rw [hcweq]; exact hup
              rw [hupw] at d3
              simpa [List.append_assoc] using d3
  | flushH =>
    cases hdf : s.hdefer with
    | nil => simp only [step, hdf]; exact ⟨ht, hsd, hc⟩
    | cons m rest =>
      obtain ⟨i, v⟩ := m
      have hi' : i = w := by have := hsd (i, v) (by simp [hdf]); exact this
      simp only [step, hdf]
      refine ⟨by simp [apply]; omega, fun m hm => hsd m (by rw [hdf]; exact List.mem_cons_of_mem _ hm), ?_⟩
      refine cm_map (P := CW s.host s.hdefer) (Q := CR s.hdefer) ?_ hc ?_ ?_
      · intro c; split <;> rfl
      · intro cw hcw hw ⟨c1, c2, c3, c4, c5⟩
        rw [if_pos (by rw [hw, hi'])]
        refine ⟨c1, c2, c3, c4, ?_⟩
        rcases c5 with c5 | c5
        · exact Or.inl c5
        · right
          rw [hdf] at c5
          simpa [apply] using c5
      · intro cw hcw c hcm hw hne _ ⟨d1, d2, d3⟩
        rw [if_pos (by rw [hw, hi']), if_neg (by rw [hi']; exact hne)]
        refine ⟨d1, d2, ?_⟩
        rcases d3 with d3 | d3
        · exact Or.inl d3
        · right
          rw [hdf] at d3
          simpa [List.append_assoc] using d3
  | publishC i v =>
    have hi' : i = w := ha
    simp only [step]
    refine ⟨ht, hsd, ?_⟩
    unfold onClient
    refine cm_map (P := CW s.host s.hdefer) (Q := CR s.hdefer) ?_ hc ?_ ?_
    · intro c; split <;> rfl
    · intro cw hcw hw ⟨c1, c2, c3, c4, c5⟩
      rw [if_pos (by rw [hw, hi'])]
      exact ⟨c1, c2, c3, by simp [cPublish, publish], Or.inl (by simp [cPublish, publish])⟩
    · intro cw hcw c hcm hw hne _ ⟨d1, d2, d3⟩
      rw [if_pos (by rw [hw, hi']), if_neg (by rw [hi']; exact hne)]
      exact ⟨d1, d2, Or.inl (by simp [cPublish, publish])⟩
  | reactC i =>
    simp only [step]
    refine ⟨ht, hsd, ?_⟩
    unfold onClient
    have hidr : ∀ c : Client, (cReact c).id = c.id := by
      intro c; unfold cReact; split <;> rfl
    by_cases hi' : i = w
    · refine cm_map (P := CW s.host s.hdefer) (Q := CR s.hdefer) ?_ hc ?_ ?_
      · intro c; split
        · exact hidr c
        · rfl
      · intro cw hcw hw ⟨c1, c2, c3, c4, c5⟩
        rw [if_pos (by rw [hw, hi'])]
        by_cases h0 : cw.p.events = 0
        · simp only [cReact, react_idle cw.p h0]; exact ⟨c1, c2, c3, c4, c5⟩
        · obtain ⟨v, hv⟩ : ∃ v, cw.p.content = some v := by
            cases h : cw.p.content with
            | none => exact absurd h c4
            | some v => exact ⟨v, rfl⟩
          simp only [cReact, react_writer cw.p v c1 h0 hv]
          refine ⟨c1, c2, c3, c4, Or.inr ?_⟩
          simp only [← List.append_assoc, lastOr_snoc, hv]
      · intro cw hcw c hcm hw hne ⟨c1, c2, c3, c4, c5⟩ ⟨d1, d2, d3⟩
        rw [if_pos (by rw [hw, hi']), if_neg (by rw [hi']; exact hne)]
        by_cases h0 : cw.p.events = 0
        · simp only [cReact, react_idle cw.p h0]; exact ⟨d1, d2, d3⟩
        · obtain ⟨v, hv⟩ : ∃ v, cw.p.content = some v := by
            cases h : cw.p.content with
            | none => exact absurd h c4
            | some v => exact ⟨v, rfl⟩
          simp only [cReact, react_writer cw.p v c1 h0 hv]
          refine ⟨d1, d2, Or.inr ?_⟩
          simp only [← List.append_assoc, lastOr_snoc, hv]
    · refine cm_map (P := CW s.host s.hdefer) (Q := CR s.hdefer) ?_ hc ?_ ?_
      · intro c; split
        · exact hidr c
        · rfl
      · intro cw hcw hw hcwp
        rw [if_neg (by rw [hw]; exact fun h => hi' h.symm)]
        exact hcwp
      · intro cw hcw c hcm hw hne _ ⟨d1, d2, d3⟩
        rw [if_neg (by rw [hw]; exact fun h => hi' h.symm)]
        by_cases hci : c.id = i
        · rw [if_pos hci]
          obtain ⟨r1, r2, r3⟩ := react_reader c.p d2
          simp only [cReact, r1]
          refine ⟨d1, r2, ?_⟩
          rw [r3]; exact d3
        · rw [if_neg hci]; exact ⟨d1, d2, d3⟩
  | pollC i =>
    simp only [step]
    refine ⟨ht, hsd, ?_⟩
    unfold onClient
    refine cm_map (P := CW s.host s.hdefer) (Q := CR s.hdefer) ?_ hc ?_ ?_
    · intro c; split
      · unfold cPoll; split <;> rfl
      · rfl
    · intro cw hcw hw ⟨c1, c2, c3, c4, c5⟩
      have ecw : cPoll cw = cw := by simp [cPoll, c3]
      split
      · rw [ecw]; exact ⟨c1, c2, c3, c4, c5⟩
      · exact ⟨c1, c2, c3, c4, c5⟩
    · intro cw hcw c hcm hw hne ⟨c1, c2, c3, c4, c5⟩ ⟨d1, d2, d3⟩
      have ecw : (if cw.id = i then cPoll cw else cw) = cw := by
        split
        · simp [cPoll, c3]
        · rfl
      rw [ecw]
      by_cases hci : c.id = i
      · rw [if_pos hci]
        cases hdn : c.down with
        | nil => simp only [cPoll, hdn]; exact ⟨d1, d2, d3⟩
        | cons v rest =>
          simp only [cPoll, hdn]
          refine ⟨d1, d2, ?_⟩
          rw [hdn] at d3
          simpa [List.append_assoc] using d3
      · rw [if_neg hci]; exact ⟨d1, d2, d3⟩
  | flushC i =>
    simp only [step]
    refine ⟨ht, hsd, ?_⟩
    unfold onClient
    refine cm_map (P := CW s.host s.hdefer) (Q := CR s.hdefer) ?_ hc ?_ ?_
    · intro c; split
      · unfold cFlush; split <;> rfl
      · rfl
    · intro cw hcw hw ⟨c1, c2, c3, c4, c5⟩
      have ecw : cFlush true cw = cw := by simp [cFlush, c2]
      split
      · rw [ecw]; exact ⟨c1, c2, c3, c4, c5⟩
      · exact ⟨c1, c2, c3, c4, c5⟩
    · intro cw hcw c hcm hw hne ⟨c1, c2, c3, c4, c5⟩ ⟨d1, d2, d3⟩
      have ecw : (if cw.id = i then cFlush true cw else cw) = cw := by
        split
        · simp [cFlush, c2]
        · rfl
      rw [ecw]
      by_cases hci : c.id = i
      · rw [if_pos hci]
        cases hdf : c.defer with
        | nil => simp only [cFlush, hdf]; exact ⟨d1, d2, d3⟩
        | cons v rest =>
          simp only [cFlush, hdf, apply, if_true]
          refine ⟨d1, by simp only; omega, ?_⟩
          rw [hdf] at d3
          simpa [List.append_assoc] using d3
      · rw [if_neg hci]; exact ⟨d1, d2, d3⟩

theorem ids_step (ct : Bool) (s : State) (a : Act) :
    (step ct s a).clients.map (·.id) = s.clients.map (·.id) := by
  have hmap : ∀ (g : Client → Client), (∀ c, (g c).id = c.id) → (s.clients.map g).map (·.id) = s.clients.map (·.id) := by
    intro g hg
    rw [List.map_map]
    apply List.map_congr_left
    intro c _
    exact hg c
  have hon : ∀ (i : Nat) (f : Client → Client), (∀ c, (f c).id = c.id) →
      (onClient i f s.clients).map (·.id) = s.clients.map (·.id) := by
    intro i f hf
    apply hmap
    intro c; split
    · exact hf c
    · rfl
  cases a with
  | publishH v => rfl
  | reactH =>
    simp only [step]
    split
    · exact hmap _ (fun _ => rfl)
    · rfl
  | pollH i =>
    simp only [step]
    split
    · split
      · rfl
      · exact hon i _ (fun _ => rfl)
    · rfl
  | flushH =>
    simp only [step]
    split
    · rfl
    · apply hmap; intro c; split <;> rfl
  | publishC i v => exact hon i _ (fun _ => rfl)
  | reactC i => exact hon i _ (fun c => by unfold cReact; split <;> rfl)
  | pollC i => exact hon i _ (fun c => by unfold cPoll; split <;> rfl)
  | flushC i => exact hon i _ (fun c => by unfold cFlush; split <;> rfl)

theorem ids_run (ct : Bool) (s : State) (as : List Act) :
    (run ct s as).clients.map (·.id) = s.clients.map (·.id) := by
  induction as generalizing s with
  | nil => rfl
  | cons a as ih => exact (ih (step ct s a)).trans (ids_step ct s a)

theorem present_of_ids {w : Nat} {cs cs' : List Client} (h : cs'.map (·.id) = cs.map (·.id))
    (hp : ∃ c ∈ cs, c.id = w) : ∃ c ∈ cs', c.id = w := by
  obtain ⟨c, hc, hw⟩ := hp
  have : w ∈ cs.map (·.id) := List.mem_map.mpr ⟨c, hc, hw⟩
  rw [← h] at this
  obtain ⟨c', hc', hw'⟩ := List.mem_map.mp this
  exact ⟨c', hc', hw'⟩

theorem cm_run (w : Nat) (s : State) (as : List Act) (hn : (s.clients.map (·.id)).Nodup)
    (hp : ∃ cw ∈ s.clients, cw.id = w) (hi : CM w s) (ha : ∀ a ∈ as, ClientWrites w a) :
    CM w (run true s as) := by
  induction as generalizing s with
  | nil => exact hi
  | cons a as ih =>
    have hids := ids_step true s a
    exact ih _ (by rw [hids]; exact hn) (present_of_ids hids hp)
      (cm_step w s a hn hp hi (ha a (by simp))) (fun b hb => ha b (by simp [hb]))

theorem cm_start (w : Nat) (x : Option Nat) (s : State) (v : Nat) (hs : Settled x s) :
    CM w (step true s (.publishC w v)) := by
  obtain ⟨_, h2, h3, h4, hc⟩ := hs
  refine ⟨by simp [step]; omega, by simp [step, h4], ?_⟩
  simp only [step]
  unfold onClient
  intro cw' hcw' hw'
  obtain ⟨cw, hcw, rfl⟩ := List.mem_map.mp hcw'
  have hidw : cw.id = w := by
    by_cases h : cw.id = w
    · exact h
    · rw [if_neg h] at hw'; exact absurd hw' h
  rw [if_pos hidw]
  obtain ⟨_, c2, c3, c4, c5, c6⟩ := hc cw hcw
  refine ⟨⟨c3, c4, c6, by simp [cPublish, publish], Or.inl (by simp [cPublish, publish])⟩, ?_⟩
  intro c' hc' hne'
  obtain ⟨c, hcm, rfl⟩ := List.mem_map.mp hc'
  have hidc : c.id ≠ w := by
    intro h; rw [if_pos h] at hne'; exact hne' h
  rw [if_neg hidc]
  obtain ⟨_, d2, d3, d4, d5, d6⟩ := hc c hcm
  exact ⟨d5, by omega, Or.inl (by simp [cPublish, publish])⟩

def contentOf (w : Nat) (s : State) : Option Nat :=
  if w = 0 then s.host.content else (findClient w s.clients).bind (·.p.content)

theorem cm_settled (w : Nat) (hw0 : w ≠ 0) (s : State) (hn : (s.clients.map (·.id)).Nodup)
    (hp : ∃ cw ∈ s.clients, cw.id = w) (hi : CM w s) (hq : Quiescent s) : Settled (contentOf w s) s := by
  obtain ⟨ht, hsd, hc⟩ := hi
  obtain ⟨cw, hcw, hw⟩ := hp
  obtain ⟨q1, q2, qc⟩ := hq
  obtain ⟨⟨c1, c2, c3, c4, c5⟩, hr⟩ := hc cw hcw hw
  obtain ⟨e1, e2, e3, e4⟩ := qc cw hcw
  have hcont : contentOf w s = cw.p.content := by
    simp [contentOf, hw0, findClient_of_mem hn hcw hw]
  rw [hcont]
  refine ⟨?_, q1, by omega, q2, fun c hcm => ?_⟩
  · rcases c5 with h | h
    · omega
    · simpa [q2, e3] using h
  · by_cases hcw' : c.id = w
    · have : c = cw := by
        have h1 := findClient_of_mem hn hcm hcw'
        have h2 := findClient_of_mem hn hcw hw
        rw [h1] at h2; exact Option.some.inj h2
      rw [this]
      exact ⟨rfl, e1, c1, c2, e3, e4⟩
    · obtain ⟨d1, d2, d3⟩ := hr c hcm hcw'
      obtain ⟨g1, g2, g3, g4⟩ := qc c hcm
      refine ⟨?_, g1, by omega, g2, g3, g4⟩
      rcases d3 with h | h
      · omega
      · simpa [q2, e3, g2, g4] using h

/-! ## what the writer holds: its last publication -/

def pubOf (w : Nat) (x : Option Nat) : Act → Option Nat
  | .publishH v => if w = 0 then some v else x
  | .publishC i v => if i = w then some v else x
  | _ => x

theorem react_content (p : Peer) : (react p).1.content = p.content := by
  unfold react; split
  · rfl
  · split <;> rfl

theorem host_content_step (s : State) (a : Act) (hi : HM s) (ha : HostWrites a) :
    (step true s a).host.content = pubOf 0 s.host.content a := by
  obtain ⟨ht, hd, hne, hc⟩ := hi
  cases a with
  | publishH v => simp [step, publish, pubOf]
  | reactH => simp only [step, pubOf]; split <;> exact react_content s.host
  | pollH i =>
    simp only [step, pubOf]
    split
    · split <;> rfl
    · rfl
  | flushH => simp [step, pubOf, hd]
  | publishC i v => exact absurd ha (by simp [HostWrites])
  | reactC i => rfl
  | pollC i => rfl
  | flushC i => rfl

theorem host_content_run (s : State) (as : List Act) (hi : HM s) (ha : ∀ a ∈ as, HostWrites a) :
    (run true s as).host.content = as.foldl (pubOf 0) s.host.content := by
  induction as generalizing s with
  | nil => rfl
  | cons a as ih =>
    have h1 := hm_step s a hi (ha a (by simp))
    have := ih _ h1 (fun b hb => ha b (by simp [hb]))
    simp only [run, List.foldl_cons] at this ⊢
    rw [this, host_content_step s a hi (ha a (by simp))]

theorem client_content_step (w : Nat) (s : State) (a : Act) (L : Option Nat)
    (hi : CM w s) (ha : ClientWrites w a)
    (hL : ∀ c ∈ s.clients, c.id = w → c.p.content = L) :
    ∀ c ∈ (step true s a).clients, c.id = w → c.p.content = pubOf w L a := by
  have hdefer : ∀ c ∈ s.clients, c.id = w → c.defer = [] := fun c hc hw => (hi.2.2 c hc hw).1.2.1
  cases a with
  | publishH v => exact absurd ha (by simp [ClientWrites])
  | reactH =>
    simp only [step, pubOf]; split
    · apply forall_map
      intro c hc; exact hL c hc
    · exact hL
  | pollH i =>
    simp only [step, pubOf]
    split
    · split
      · exact hL
      · apply forall_onClient
        · intro c hc _; exact hL c hc
        · intro c hc _; exact hL c hc
    · exact hL
  | flushH =>
    simp only [step, pubOf]
    split
    · exact hL
    · apply forall_map
      intro c hc
      split
      · exact hL c hc
      · exact hL c hc
  | publishC i v =>
    have hi' : i = w := ha
    simp only [step, pubOf, hi', if_true]
    apply forall_onClient
    · intro c _ hne hw; exact absurd hw hne
    · intro c _ _ _; simp [cPublish, publish]
  | reactC i =>
    simp only [step, pubOf]
    apply forall_onClient
    · intro c hc _; exact hL c hc
    · intro c hc _ hw
      have hid : (cReact c).id = c.id := by unfold cReact; split <;> rfl
      have : (cReact c).p.content = c.p.content := by
        unfold cReact; split <;> exact react_content c.p
      rw [this]; exact hL c hc (by rw [← hid]; exact hw)
  | pollC i =>
    simp only [step, pubOf]
    apply forall_onClient
    · intro c hc _; exact hL c hc
    · intro c hc _ hw
      have hid : (cPoll c).id = c.id := by unfold cPoll; split <;> rfl
      have : (cPoll c).p.content = c.p.content := by unfold cPoll; split <;> rfl
      rw [this]; exact hL c hc (by rw [← hid]; exact hw)
  | flushC i =>
    simp only [step, pubOf]
    apply forall_onClient
    · intro c hc _; exact hL c hc
    · intro c hc _ hw
      have hid : (cFlush true c).id = c.id := by unfold cFlush; split <;> rfl
      have hw' : c.id = w := by rw [← hid]; exact hw
      have : cFlush true c = c := by simp [cFlush, hdefer c hc hw']
      rw [this]; exact hL c hc hw'

theorem client_content_run (w : Nat) (s : State) (as : List Act) (L : Option Nat)
    (hn : (s.clients.map (·.id)).Nodup) (hp : ∃ cw ∈ s.clients, cw.id = w) (hi : CM w s)
    (ha : ∀ a ∈ as, ClientWrites w a) (hL : ∀ c ∈ s.clients, c.id = w → c.p.content = L) :
    ∀ c ∈ (run true s as).clients, c.id = w → c.p.content = as.foldl (pubOf w) L := by
  induction as generalizing s L with
  | nil => exact hL
  | cons a as ih =>
    have hids := ids_step true s a
    have h1 := cm_step w s a hn hp hi (ha a (by simp))
    exact ih _ _ (by rw [hids]; exact hn) (present_of_ids hids hp) h1 (fun b hb => ha b (by simp [hb]))
      (client_content_step w s a L hi (ha a (by simp)) hL)

/-! ## any sequence of single-writer epochs -/

structure Epoch where
  writer : Nat
  first : Nat
  acts : List Act

def firstAct (e : Epoch) : Act := if e.writer = 0 then .publishH e.first else .publishC e.writer e.first

def Epoch.disciplined (e : Epoch) : Prop :=
  if e.writer = 0 then ∀ a ∈ e.acts, HostWrites a else ∀ a ∈ e.acts, ClientWrites e.writer a

def Epoch.run (s : State) (e : Epoch) : State := Mat.run true (step true s (firstAct e)) e.acts

def Epoch.last (e : Epoch) : Option Nat := e.acts.foldl (pubOf e.writer) (some e.first)

def EpochsOk (s : State) : List Epoch → Prop
  | [] => True
  | e :: es =>
    e.disciplined ∧ (e.writer = 0 ∨ ∃ c ∈ s.clients, c.id = e.writer) ∧ Quiescent (e.run s) ∧ EpochsOk (e.run s) es

theorem epoch_converges (x : Option Nat) (s : State) (e : Epoch) (hn : (s.clients.map (·.id)).Nodup)
    (hs : Settled x s) (hd : e.disciplined) (hp : e.writer = 0 ∨ ∃ c ∈ s.clients, c.id = e.writer)
    (hq : Quiescent (e.run s)) : Settled e.last (e.run s) := by
  by_cases hw : e.writer = 0
  · simp only [Epoch.disciplined, hw, if_true] at hd
    have h0 : HM (step true s (.publishH e.first)) := hm_start x s e.first hs
    have h1 := hm_run _ e.acts h0 hd
    have hrun : Epoch.run s e = Mat.run true (step true s (.publishH e.first)) e.acts := by
      unfold Epoch.run firstAct; rw [if_pos hw]
    rw [hrun] at hq ⊢
    have h2 := hm_settled _ h1 hq
    have h3 := host_content_run _ e.acts h0 hd
    have h4 : (step true s (.publishH e.first)).host.content = some e.first := by simp [step, publish]
    rw [h3, h4] at h2
    unfold Epoch.last; rw [hw]; exact h2
  · simp only [Epoch.disciplined, hw, if_false] at hd
    have hp' : ∃ c ∈ s.clients, c.id = e.writer := by
      rcases hp with hp | hp
      · exact absurd hp hw
      · exact hp
    have hids := ids_step true s (.publishC e.writer e.first)
    have h0 : CM e.writer (step true s (.publishC e.writer e.first)) := cm_start e.writer x s e.first hs
    have hn1 : ((step true s (.publishC e.writer e.first)).clients.map (·.id)).Nodup := by rw [hids]; exact hn
    have hp1 := present_of_ids hids hp'
    have h1 := cm_run e.writer _ e.acts hn1 hp1 h0 hd
    have hrun : Epoch.run s e = Mat.run true (step true s (.publishC e.writer e.first)) e.acts := by
      unfold Epoch.run firstAct; rw [if_neg hw]
    rw [hrun] at hq ⊢
    have hids2 := ids_run true (step true s (.publishC e.writer e.first)) e.acts
    have hn2 : ((Mat.run true (step true s (.publishC e.writer e.first)) e.acts).clients.map (·.id)).Nodup := by
      rw [hids2]; exact hn1
    have hp2 := present_of_ids hids2 hp1
    have h2 := cm_settled e.writer hw _ hn2 hp2 h1 hq
    have hL0 : ∀ c ∈ (step true s (.publishC e.writer e.first)).clients, c.id = e.writer →
        c.p.content = some e.first := by
      simp only [step]
      apply forall_onClient
      · intro c _ hne hw'; exact absurd hw' hne
      · intro c _ _ _; simp [cPublish, publish]
    have h3 := client_content_run e.writer _ e.acts (some e.first) hn1 hp1 h0 hd hL0
    obtain ⟨cw, hcw, hcwid⟩ := hp2
    have h4 : contentOf e.writer (Mat.run true (step true s (.publishC e.writer e.first)) e.acts) = e.last := by
      simp only [contentOf, hw, if_false, findClient_of_mem hn2 hcw hcwid, Option.bind_some]
      exact h3 cw hcw hcwid
    rw [h4] at h2; exact h2

def runEpochs (s : State) (es : List Epoch) : State := es.foldl Epoch.run s

def finalContent (x : Option Nat) : List Epoch → Option Nat
  | [] => x
  | e :: es => finalContent e.last es

theorem epochs_converge (x : Option Nat) (s : State) (es : List Epoch) (hn : (s.clients.map (·.id)).Nodup)
    (hs : Settled x s) (hok : EpochsOk s es) : Settled (finalContent x es) (runEpochs s es) := by
  induction es generalizing s x with
  | nil => exact hs
  | cons e es ih =>
    obtain ⟨hd, hp, hq, hrest⟩ := hok
    have h1 := epoch_converges x s e hn hs hd hp hq
    have hn' : ((e.run s).clients.map (·.id)).Nodup := by
      unfold Epoch.run; rw [ids_run, ids_step]; exact hn
    exact ih _ _ hn' h1 hrest

end Mat
end BevySync
