/-! Typed model of the serde data model as encoded by bincode 1.3 with fixed-width integers
(`bincode::serialize`/`deserialize` and `DefaultOptions::new().with_fixint_encoding()
.allow_trailing_bytes()` of `binreflect.rs` produce the same bytes):

* integers / floats: little-endian, fixed width (floats are their bit patterns);
* `bool`: one byte 0/1 (anything else is a decode error);
* `String`/`&str`: u64 length + bytes, decoder validates UTF-8;
* `Vec<u8>` (`bytes`): u64 length + raw bytes (identical to a `seq` of `u8`);
* `Uuid` (non human readable): `serialize_bytes` of 16 bytes = u64 length 16 + bytes, decoder demands 16;
* `Option`: tag byte 0/1; * sequences and maps: u64 length + items;
* tuples / structs / arrays / newtypes: concatenation; * enums: u32 variant **index** + payload.

No imports: part of the compiled driver. -/
namespace BevySync
namespace Wire

mutual
inductive Ty where
  | uint (w : Nat)
  | bool
  | str
  | bytes
  | uuid
  | opt (t : Ty)
  | seq (t : Ty)
  | tup (ts : TyList)
  | enm (vs : TyList)
inductive TyList where
  | nil
  | cons (t : Ty) (ts : TyList)
end

mutual
inductive Val where
  | int (w n : Nat)
  | bool (b : Bool)
  | str (bs : List UInt8)
  | bytes (bs : List UInt8)
  | uuid (bs : List UInt8)
  | none
  | some (v : Val)
  | seq (vs : ValList)
  | tup (vs : ValList)
  | variant (idx : Nat) (v : Val)
inductive ValList where
  | nil
  | cons (v : Val) (vs : ValList)
end

deriving instance Repr for Ty, TyList, Val, ValList

def TyList.ofList : List Ty → TyList
  | [] => .nil
  | t :: ts => .cons t (TyList.ofList ts)

def ValList.ofList : List Val → ValList
  | [] => .nil
  | v :: vs => .cons v (ValList.ofList vs)

def ValList.toList : ValList → List Val
  | .nil => []
  | .cons v vs => v :: vs.toList

def ValList.length : ValList → Nat
  | .nil => 0
  | .cons _ vs => vs.length + 1

def TyList.nth : TyList → Nat → Option Ty
  | .nil, _ => Option.none
  | .cons t _, 0 => Option.some t
  | .cons _ ts, i+1 => ts.nth i

def Ty.unit : Ty := .tup .nil
def Val.unit : Val := .tup .nil

/-! ### decidable structural equality (Bool-valued, for the driver and for `decide` obligations) -/
mutual
def Ty.beq : Ty → Ty → Bool
  | .uint a, .uint b => a == b
  | .bool, .bool => true
  | .str, .str => true
  | .bytes, .bytes => true
  | .uuid, .uuid => true
  | .opt a, .opt b => Ty.beq a b
  | .seq a, .seq b => Ty.beq a b
  | .tup a, .tup b => TyList.beq a b
  | .enm a, .enm b => TyList.beq a b
  | _, _ => false
def TyList.beq : TyList → TyList → Bool
  | .nil, .nil => true
  | .cons a as, .cons b bs => Ty.beq a b && TyList.beq as bs
  | _, _ => false
end

mutual
def Val.beq : Val → Val → Bool
  | .int w n, .int w' n' => w == w' && n == n'
  | .bool a, .bool b => a == b
  | .str a, .str b => a == b
  | .bytes a, .bytes b => a == b
  | .uuid a, .uuid b => a == b
  | .none, .none => true
  | .some a, .some b => Val.beq a b
  | .seq a, .seq b => ValList.beq a b
  | .tup a, .tup b => ValList.beq a b
  | .variant i a, .variant j b => i == j && Val.beq a b
  | _, _ => false
def ValList.beq : ValList → ValList → Bool
  | .nil, .nil => true
  | .cons a as, .cons b bs => Val.beq a b && ValList.beq as bs
  | _, _ => false
end

/-! ### little-endian integers -/
def leBytes : Nat → Nat → List UInt8
  | 0, _ => []
  | w+1, n => UInt8.ofNat (n % 256) :: leBytes w (n / 256)

def leVal : List UInt8 → Nat
  | [] => 0
  | b :: r => b.toNat + 256 * leVal r

/-- take exactly `n` bytes (error when fewer remain) -/
def splitN : Nat → List UInt8 → Option (List UInt8 × List UInt8)
  | 0, bs => Option.some ([], bs)
  | _+1, [] => Option.none
  | n+1, b :: bs =>
    match splitN n bs with
    | Option.some (a, r) => Option.some (b :: a, r)
    | Option.none => Option.none

def readUInt (w : Nat) (bs : List UInt8) : Option (Nat × List UInt8) :=
  match splitN w bs with
  | Option.some (a, r) => Option.some (leVal a, r)
  | Option.none => Option.none

/-! ### UTF-8 validity exactly as `core::str::from_utf8` (Unicode table 3-7) -/
def isCont (b : UInt8) : Bool := 0x80 ≤ b && b ≤ 0xBF

def utf8Valid : List UInt8 → Bool
  | [] => true
  | b0 :: r =>
    if b0 < 0x80 then utf8Valid r
    else if 0xC2 ≤ b0 && b0 ≤ 0xDF then
      match r with
      | b1 :: r' => isCont b1 && utf8Valid r'
      | _ => false
    else if b0 == 0xE0 then
      match r with
      | b1 :: b2 :: r' => (0xA0 ≤ b1 && b1 ≤ 0xBF) && isCont b2 && utf8Valid r'
      | _ => false
    else if (0xE1 ≤ b0 && b0 ≤ 0xEC) || (0xEE ≤ b0 && b0 ≤ 0xEF) then
      match r with
      | b1 :: b2 :: r' => isCont b1 && isCont b2 && utf8Valid r'
      | _ => false
    else if b0 == 0xED then
      match r with
      | b1 :: b2 :: r' => (0x80 ≤ b1 && b1 ≤ 0x9F) && isCont b2 && utf8Valid r'
      | _ => false
    else if b0 == 0xF0 then
      match r with
      | b1 :: b2 :: b3 :: r' => (0x90 ≤ b1 && b1 ≤ 0xBF) && isCont b2 && isCont b3 && utf8Valid r'
      | _ => false
    else if 0xF1 ≤ b0 && b0 ≤ 0xF3 then
      match r with
      | b1 :: b2 :: b3 :: r' => isCont b1 && isCont b2 && isCont b3 && utf8Valid r'
      | _ => false
    else if b0 == 0xF4 then
      match r with
      | b1 :: b2 :: b3 :: r' => (0x80 ≤ b1 && b1 ≤ 0x8F) && isCont b2 && isCont b3 && utf8Valid r'
      | _ => false
    else false

/-! ### encoder -/
mutual
def enc : Val → List UInt8
  | .int w n => leBytes w n
  | .bool b => [if b then 1 else 0]
  | .str bs => leBytes 8 bs.length ++ bs
  | .bytes bs => leBytes 8 bs.length ++ bs
  | .uuid bs => leBytes 8 bs.length ++ bs
  | .none => [0]
  | .some v => 1 :: enc v
  | .seq vs => leBytes 8 vs.length ++ encs vs
  | .tup vs => encs vs
  | .variant i v => leBytes 4 i ++ enc v
def encs : ValList → List UInt8
  | .nil => []
  | .cons v vs => enc v ++ encs vs
end

/-! ### decoder -/
abbrev DecRes := Option (Val × List UInt8)

def decMany (f : List UInt8 → DecRes) : Nat → List UInt8 → Option (ValList × List UInt8)
  | 0, bs => Option.some (.nil, bs)
  | n+1, bs =>
    match f bs with
    | Option.none => Option.none
    | Option.some (v, r) =>
      match decMany f n r with
      | Option.none => Option.none
      | Option.some (vs, r') => Option.some (.cons v vs, r')

mutual
def dec : Ty → List UInt8 → DecRes
  | .uint w, bs =>
    match readUInt w bs with
    | Option.some (n, r) => Option.some (.int w n, r)
    | Option.none => Option.none
  | .bool, bs =>
    match bs with
    | b :: r => if b == 0 then Option.some (.bool false, r) else if b == 1 then Option.some (.bool true, r) else Option.none
    | [] => Option.none
  | .str, bs =>
    match readUInt 8 bs with
    | Option.some (n, r) =>
      match splitN n r with
      | Option.some (a, r') => if utf8Valid a then Option.some (.str a, r') else Option.none
      | Option.none => Option.none
    | Option.none => Option.none
  | .bytes, bs =>
    match readUInt 8 bs with
    | Option.some (n, r) =>
      match splitN n r with
      | Option.some (a, r') => Option.some (.bytes a, r')
      | Option.none => Option.none
    | Option.none => Option.none
  | .uuid, bs =>
    match readUInt 8 bs with
    | Option.some (n, r) =>
      if n == 16 then
        match splitN 16 r with
        | Option.some (a, r') => Option.some (.uuid a, r')
        | Option.none => Option.none
      else Option.none
    | Option.none => Option.none
  | .opt t, bs =>
    match bs with
    | b :: r =>
      if b == 0 then Option.some (.none, r)
      else if b == 1 then
        match dec t r with
        | Option.some (v, r') => Option.some (.some v, r')
        | Option.none => Option.none
      else Option.none
    | [] => Option.none
  | .seq t, bs =>
    match readUInt 8 bs with
    | Option.some (n, r) =>
      match decMany (dec t) n r with
      | Option.some (vs, r') => Option.some (.seq vs, r')
      | Option.none => Option.none
    | Option.none => Option.none
  | .tup ts, bs =>
    match decs ts bs with
    | Option.some (vs, r) => Option.some (.tup vs, r)
    | Option.none => Option.none
  | .enm vs, bs =>
    match readUInt 4 bs with
    | Option.some (i, r) =>
      match decVariant vs i r with
      | Option.some (v, r') => Option.some (.variant i v, r')
      | Option.none => Option.none
    | Option.none => Option.none
def decs : TyList → List UInt8 → Option (ValList × List UInt8)
  | .nil, bs => Option.some (.nil, bs)
  | .cons t ts, bs =>
    match dec t bs with
    | Option.none => Option.none
    | Option.some (v, r) =>
      match decs ts r with
      | Option.none => Option.none
      | Option.some (vs, r') => Option.some (.cons v vs, r')
def decVariant : TyList → Nat → List UInt8 → DecRes
  | .nil, _, _ => Option.none
  | .cons t _, 0, bs => dec t bs
  | .cons _ ts, i+1, bs => decVariant ts i bs
end

/-! ### well-typedness (decidable; the driver evaluates it on every value the harness sends) -/
mutual
def wt : Ty → Val → Bool
  | .uint w, .int w' n => w' == w && decide (n < 256 ^ w)
  | .bool, .bool _ => true
  | .str, .str bs => utf8Valid bs && decide (bs.length < 2 ^ 64)
  | .bytes, .bytes bs => decide (bs.length < 2 ^ 64)
  | .uuid, .uuid bs => bs.length == 16
  | .opt _, .none => true
  | .opt t, .some v => wt t v
  | .seq t, .seq vs => wtAll t vs && decide (vs.length < 2 ^ 64)
  | .tup ts, .tup vs => wts ts vs
  | .enm ts, .variant i v =>
    decide (i < 2 ^ 32) &&
      (match ts.nth i with
       | Option.some t => wt t v
       | Option.none => false)
  | _, _ => false
def wtAll : Ty → ValList → Bool
  | _, .nil => true
  | t, .cons v vs => wt t v && wtAll t vs
def wts : TyList → ValList → Bool
  | .nil, .nil => true
  | .cons t ts, .cons v vs => wt t v && wts ts vs
  | _, _ => false
end

/-- decode a complete buffer; trailing bytes are allowed exactly as in the crate
(`bincode::deserialize` does not reject them, `binreflect.rs` asks for `allow_trailing_bytes`) -/
def decode (t : Ty) (bs : List UInt8) : Option Val :=
  match dec t bs with
  | Option.some (v, _) => Option.some v
  | Option.none => Option.none

end Wire
end BevySync
