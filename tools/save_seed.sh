#!/bin/bash
# save_seed.sh <seed id> <worktree> <demo file rel path> <property> <caught yes|no> "<needs>" "<what I ran>"
ID=$1; WT=$2; DEMO=$3; PROP=$4; CAUGHT=$5; NEEDS=$6; RAN=$7
D=/verif/seeded/$ID; mkdir -p $D
cp $WT/seeded.diff $D/patch.diff
cp $WT/$DEMO $D/
cp $WT/NOTES.md $D/NOTES.md 2>/dev/null
python3 - "$ID" "$PROP" "$CAUGHT" "$NEEDS" "$RAN" "$DEMO" <<'PY'
import json,sys
i,prop,caught,needs,ran,demo=sys.argv[1:7]
json.dump({"id":i,"property":prop,"breaks":prop,"needs_to_manifest":needs,"demonstration":demo.split("/")[-1],
           "confirmed":ran,"caught_by_check":caught,"written_by":"independent sub-agent given only the property text and a scratch worktree"},
          open("/verif/seeded/%s/meta.json"%i,"w"),indent=1)
PY
ls $D
