#!/bin/bash
# regress_seeds.sh [ids...]: every saved seeded change (or the given ones) against its own property's quick check.
# One line per seed: <id> <property> caught-with-input | caught-no-input | MISSED. /repo is restored after each.
cd /verif
ids=${@:-$(ls seeded | sort -V)}
for id in $ids; do
  P=$(python3 -c "import json; print(json.load(open('seeded/$id/meta.json'))['property'])")
  if ! git -C /repo apply --check /verif/seeded/$id/patch.diff 2>/dev/null; then echo "$id $P PATCH-DOES-NOT-APPLY"; continue; fi
  git -C /repo apply /verif/seeded/$id/patch.diff
  out=$(VERIF_EVIDENCE_DIR=/tmp/seed-evidence ./check $P 2>&1); rc=$?
  git -C /repo checkout -- .
  if [ $rc -gt 1 ] || echo "$out" | grep -q "^Traceback\|^ERROR"; then echo "$id $P CHECK-CRASHED (rc=$rc)"; continue; fi
  if echo "$out" | grep "^VIOLATION" | grep -qv "no-failing-input-found"; then echo "$id $P caught-with-input"
  elif echo "$out" | grep -q "^VIOLATION"; then echo "$id $P caught-no-input"
  else echo "$id $P MISSED"; fi
done
python3 translate/translate.py > /dev/null
