#!/bin/bash
# confirm a seeded change in its scratch worktree: demo fails with the change, passes without, suite passes with it
# usage: confirm_seed.sh <worktree> <demo test target> [cargo feature flags]
# (no `git stash`: the stash stack is shared between worktrees)
WT=$1; DEMO=$2; FEAT=$3
cd $WT || exit 2
export CARGO_NET_OFFLINE=true
git diff --quiet -- src && git apply seeded.diff
echo "== demo WITH change"; cargo test --offline $FEAT --test $DEMO 2>&1 | grep -E "^test result|^test .* (ok|FAILED)|error(\[|:)" | head -20
echo "== existing suite WITH change"; cargo test --workspace --no-fail-fast --offline 2>&1 | grep -E "^test result|FAILED" | head -20
git apply -R seeded.diff
echo "== demo WITHOUT change"; cargo test --offline $FEAT --test $DEMO 2>&1 | grep -E "^test result|^test .* (ok|FAILED)|error(\[|:)" | head -20
git apply seeded.diff
echo "== done"
