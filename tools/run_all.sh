#!/bin/bash
# run every claimed quick check on the current tree (evidence is rewritten by each)
cd /verif
for p in $(python3 -c "import json; print(' '.join(c['property_id'] for c in json.load(open('MANIFEST.json'))['checks']))"); do
  ./check $p --tier ${1:-quick} 2>/dev/null | grep -E "^C[0-9]+ |VIOLATION|KNOWN|ERROR"
done
