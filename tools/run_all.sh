#!/bin/bash
# full setup (root library build, as a fresh restore does it), then every claimed quick check on the current tree
# (evidence is rewritten by each)
cd /verif
./check --setup 2>&1 | grep -E "^(translate|lake build|harness build)" 
for p in $(python3 -c "import json; print(' '.join(c['property_id'] for c in json.load(open('MANIFEST.json'))['checks']))"); do
  ./check $p --tier ${1:-quick} 2>/dev/null | grep -E "^C[0-9]+ |VIOLATION|KNOWN|ERROR" | cut -c1-260
done
