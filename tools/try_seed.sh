#!/bin/bash
# try_seed.sh <property> <patch file>: apply a seeded change to /repo, run the property's quick check
# (evidence diverted), undo the change and regenerate the Generated files
P=$1; PATCH=$2
cd /repo && git apply --check "$PATCH" || { echo "patch does not apply"; exit 2; }
git apply "$PATCH"
cd /verif && VERIF_EVIDENCE_DIR=/tmp/seed-evidence ./check $P 2>/dev/null | tail -${3:-4}
cd /repo && git checkout -- . && cd /verif && python3 translate/translate.py > /dev/null
